"""C17  Required protection cannot be bypassed by sending plaintext.

Gating rules (dominance / edge cuts over the MIR of the `security` configuration): every
path from a parsed message to a Reader/Writer delivery sink passes the rtps-, submessage- and
payload-level gates; the exemption list is exactly the three bootstrap topics; the
"not protected" sets are filled only under the negated governance attribute.
"""
from rdv.core import (CheckBroken, Origins, Pos, call_matches, callee_res, norm_path, strip_generics, switch_edges,
                      term_has, term_leaves, term_str)

CONFIGS = ['security']
THOROUGH_CONFIGS = ['default']
LEVEL = 'other'

READER_SINKS = ('Reader::handle_data_msg', 'Reader::handle_datafrag_msg', 'Reader::handle_heartbeat_msg', 'Reader::handle_gap_msg',
                'Reader::handle_heartbeatfrag_msg')
FLAG = 'must_be_rtps_protection_special_case'
EXEMPT_READERS = ['SPDP_BUILTIN_PARTICIPANT_READER', 'P2P_BUILTIN_PARTICIPANT_STATELESS_READER', 'P2P_BUILTIN_PARTICIPANT_VOLATILE_SECURE_READER']
EXEMPT_WRITERS = ['SPDP_BUILTIN_PARTICIPANT_WRITER', 'P2P_BUILTIN_PARTICIPANT_STATELESS_WRITER', 'P2P_BUILTIN_PARTICIPANT_VOLATILE_SECURE_WRITER']


def has_field(t, name):
    return term_has(t, lambda x: x[0] == 'field' and x[1] == name)


def has_call(t, suffix):
    return term_has(t, lambda x: x[0] == 'call' and x[1].endswith(suffix))


def entity_bytes(fx, name):
    c = fx.consts.get('structure::guid::EntityId::' + name)
    if not c or not c.get('bytes'):
        raise CheckBroken('constant EntityId::%s (bytes) not found' % name)
    return tuple(c['bytes'])


def decision_tree(body, start):
    """Enumerate the byte-wise decision tree lowered from a match on EntityId constants.
    Returns [(constraints {slot: value or ('not', values)}, leaf block)]."""
    out = []

    def slot_of(op):
        if op.get('o') not in ('copy', 'move'):
            return None
        pr = op['pl'].get('p') or []
        names = []
        for e in pr:
            if isinstance(e, dict) and 'f' in e:
                names.append(e['n'])
            elif isinstance(e, dict) and 'cidx' in e:
                names.append('[%d]' % e['cidx'])
        s = '.'.join(names)
        if 'entity_key' in s or 'entity_kind' in s:
            return (op['pl']['l'], s)
        return None

    def rec(bb, cons, depth):
        t = body.blocks[bb]['term']
        if depth < 12 and t['t'] == 'switch' and not body.blocks[bb]['st']:
            sl = slot_of(t['x'])
            if sl is not None:
                vals = []
                for v, tg in t['arms']:
                    c2 = dict(cons)
                    c2[sl[1]] = v
                    vals.append(v)
                    rec(tg, c2, depth + 1)
                c2 = dict(cons)
                c2[sl[1]] = ('not', tuple(vals))
                rec(t['otherwise'], c2, depth + 1)
                return
        out.append((cons, bb))
    rec(start, {}, 0)
    return out


def cons_to_bytes(cons):
    try:
        b = []
        for k in ('[0]', '[1]', '[2]'):
            key = [x for x in cons if x.endswith('entity_key.' + k) or x == 'entity_key.' + k or x.endswith(k)]
            v = cons[key[0]]
            if not isinstance(v, int):
                return None
            b.append(v)
        key = [x for x in cons if 'entity_kind' in x]
        v = cons[key[0]]
        if not isinstance(v, int):
            return None
        b.append(v)
        return tuple(b)
    except (IndexError, KeyError):
        return None


def gate_rtps_level(rep, fx, b, delivery_pred, exempt_names, what):
    """R17.2c for handle_writer_submessage / handle_reader_submessage."""
    og = Origins(b, summaries=True)
    P = Pos(b)
    rep.analysed(b)
    deliveries = [(bb, 'term') for bb, t in b.calls() if delivery_pred(bb, t, og)]
    if not deliveries:
        raise CheckBroken('%s: delivery call not found' % b.key)
    flag_sw = [(sbb, tg, lab) for sbb, tg, cond, lab in switch_edges(b, fx, og) if cond[0] == 'field' and cond[1] == FLAG and cond[2] == ('param', 1)]
    t_edges = [(s_, t_) for s_, t_, lab in flag_sw if lab is True]
    f_edges = [(s_, t_) for s_, t_, lab in flag_sw if lab is False]
    ok = bool(t_edges) and bool(f_edges) and all(P.every_path_passes(None, d, via_edges=t_edges + f_edges, from_entry=True) for d in deliveries)
    rep.check(ok, 'R17.2', '%s/flag-tested' % b.key, 'every path to delivery tests %s' % FLAG,
              '%s: a submessage can be delivered without testing %s' % (what, FLAG), b.where())
    # exemption list
    expect = {entity_bytes(fx, n): n for n in exempt_names}
    for s_, tg in t_edges:
        # skip the straight-line prefix (e.g. the call computing receiver_entity_id()) up to the decision tree
        start = tg
        for _ in range(6):
            tt = b.blocks[start]['term']
            if tt['t'] == 'switch':
                break
            if tt['t'] == 'goto':
                start = tt['target']
            elif tt['t'] == 'call' and tt.get('target') is not None and not delivery_pred(start, tt, og):
                start = tt['target']
            else:
                break
        leaves = decision_tree(b, start)
        accepted = []
        for cons, leaf in leaves:
            reach = any(P.can_reach((leaf, 0), d) or P.norm(d)[0] == leaf for d in deliveries)
            if reach:
                accepted.append((cons, leaf))
        got = set()
        bad = []
        for cons, leaf in accepted:
            bt = cons_to_bytes(cons)
            if bt is None:
                bad.append(cons)
            else:
                got.add(bt)
        ok = not bad and got == set(expect)
        extra = [bt for bt in got if bt not in expect]
        missing = [expect[bt] for bt in expect if bt not in got]
        rep.check(ok, 'R17.2', '%s/exemption-list' % b.key, 'unprotected traffic continues only for %s' % ', '.join(exempt_names),
                  '%s: in an rtps-protected domain unprotected submessages continue for a set of entities that is not exactly the three bootstrap '
                  'topics (DDS Security 8.4.2.4): extra=%s missing=%s unconstrained-paths=%d' % (what, extra, missing, len(bad)), b.where(tg))


def run(rep, facts, tier):
    fx = facts['security']
    rep.explanation = ('Dominance / edge-cut rules over the security-feature MIR: the rtps-level flag is decided afresh for every message and '
                       'cleared only under {no plugins, successful decode_rtps_message, domain not rtps-protected}; both submessage handlers test it '
                       'and exempt exactly the three bootstrap entities (byte-wise decision tree vs the EntityId constants); every hand-over to '
                       'handle_writer/reader_submessage is under {no plugins, submessage_not_protected(dest), confirmed crypto handle on a successful decode}; '
                       'the payload reaches the Reader only through decode_serialized_payload; not-protected sets are filled only under !is_*_protected.')
    rep.assume('governance attributes are computed correctly by access control (C18)',
               'cryptographic verification itself is delegated to the crypto plugin (C16)')
    rep.rule('R17.1', 'only door: Reader delivery functions are called only from MessageReceiver; acknack_sender.try_send only from handle_reader_submessage')
    rep.rule('R17.2', 'rtps level: the special-case flag is written on every path of handle_parsed_message before any submessage is handled; it is cleared only under '
                      '{no plugins | decode_rtps_message Success | rtps_not_protected(dest)}; both handlers test it on every path to delivery and exempt exactly the three bootstrap entities')
    rep.rule('R17.3', 'submessage level: every call of handle_writer_submessage/handle_reader_submessage is under {no plugins} or {submessage_not_protected(dest guid of that entity)} '
                      'or {confirm_local_endpoint_guid(..) on the Success arm of decode_submessage}; handle_secure_submessage runs only in SecureSubmessage x SecurePostfix')
    rep.rule('R17.4', 'payload level: with plugins present the payload handed to Reader::handle_data_msg/handle_datafrag_msg is the Ok value of decode_serialized_payload; '
                      'its pass-through return is under payload_not_protected(dest)')
    rep.rule('R17.5', 'fail-closed sets: rtps/submessage/payload_not_protected are inserted into only under the negated is_*_protected attribute')

    mr = 'rtps::message_receiver::MessageReceiver::'
    # ---------------------------------------------------------------- R17.1
    n = 0
    for pat in READER_SINKS:
        for b, bb, t in fx.callers_of(pat):
            n += 1
            ok = b.key.startswith(mr) or b.key.startswith('rtps::message_receiver::')
            rep.check(ok, 'R17.1', '%s<-%s' % (pat, b.key), 'called from MessageReceiver',
                      '%s is called from %s, outside the gated MessageReceiver path' % (pat, b.key), b.where(bb))
    rep.floor('R17.1', n, 5, 'call sites of Reader delivery functions')
    # ---------------------------------------------------------------- R17.2 a/b
    hp = fx.find(mr + 'handle_parsed_message')
    rep.analysed(hp)
    og = Origins(hp, summaries=True)
    P = Pos(hp)
    stores = []
    for bb, si, st in hp.statements():
        if st['s'] == 'assign':
            pr = st['lhs'].get('p') or []
            if pr and isinstance(pr[-1], dict) and pr[-1].get('n') == FLAG:
                x = st['rv'].get('x') or {}
                val = x['k'].get('v') if st['rv']['r'] == 'use' and x.get('o') == 'const' else None
                stores.append((bb, si, val))
    subs = [(bb, 'term') for bb, t in hp.calls() if call_matches(t, 'MessageReceiver::handle_submessage')]
    if not subs:
        raise CheckBroken('handle_parsed_message: call of handle_submessage not found')
    ok = bool(stores) and all(P.every_path_passes(None, s_, via_pos=[(bb, si) for bb, si, _v in stores], from_entry=True) for s_ in subs)
    rep.check(ok, 'R17.2', 'handle_parsed_message/flag-fresh', '%s is decided afresh for every message (%d stores)' % (FLAG, len(stores)),
              'a path of handle_parsed_message reaches submessage handling without writing %s: the value left by an earlier message '
              '(e.g. false after one protected message) would let plaintext through' % FLAG, hp.where())
    edges = list(switch_edges(hp, fx, og))
    allow = []
    for sbb, tg, cond, lab in edges:
        if lab == 'None' and cond[0] == 'discr' and has_field(cond, 'security_plugins'):
            allow.append((sbb, tg))
        if lab == 'Success' and has_call(cond, 'decode_rtps_message'):
            allow.append((sbb, tg))
        if lab is True and cond[0] == 'call' and cond[1].endswith('::rtps_not_protected'):
            allow.append((sbb, tg))
    n_false = 0
    for bb, si, val in stores:
        if val == 0:
            n_false += 1
            ok = P.every_path_passes(None, (bb, si), via_edges=allow, from_entry=True)
            rep.check(ok, 'R17.2', 'handle_parsed_message/clear#%d' % n_false, 'cleared only under no-plugins / decode Success / domain not rtps-protected',
                      '%s is set to false on a path that is neither "no plugins", "decode_rtps_message = Success" nor "rtps_not_protected(dest) = true"' % FLAG, hp.where(bb, si))
        elif val != 1:
            rep.violation('R17.2', 'handle_parsed_message/store#%d' % bb, '%s is assigned a non-constant value' % FLAG, hp.where(bb, si))
    rep.floor('R17.2', n_false, 3, 'stores of false into the special-case flag')
    # rtps_not_protected must be asked about our own participant (dest prefix)
    for sbb, tg, cond, lab in edges:
        if lab is True and cond[0] == 'call' and cond[1].endswith('::rtps_not_protected'):
            ok = has_field(cond[2][1], 'dest_guid_prefix') or has_field(cond[2][1], 'own_guid_prefix')
            rep.check(ok, 'R17.2', 'handle_parsed_message/rtps_not_protected-arg', 'asked for the local participant prefix',
                      'rtps_not_protected() is not asked about the local participant (dest/own guid prefix)', hp.where(sbb))
    # the flag is also not written anywhere else
    for b in fx.bodies:
        if b is hp:
            continue
        for bb, si, st in b.statements():
            if st['s'] == 'assign':
                pr = st['lhs'].get('p') or []
                if pr and isinstance(pr[-1], dict) and pr[-1].get('n') == FLAG:
                    rep.violation('R17.2', '%s/writes-flag' % b.key, '%s is written outside handle_parsed_message' % FLAG, b.where(bb, si))
    # ---------------------------------------------------------------- R17.2 c
    rule_17_7(rep, fx, mr)
    hw = fx.find(mr + 'handle_writer_submessage')
    gate_rtps_level(rep, fx, hw, lambda bb, t, og_: call_matches(t, 'MessageReceiver::reader_mut') or call_matches(t, *READER_SINKS) or call_matches(t, 'decode_and_handle_data', 'decode_and_handle_datafrag'),
                    EXEMPT_READERS, 'handle_writer_submessage')
    hr = fx.find(mr + 'handle_reader_submessage')
    gate_rtps_level(rep, fx, hr, lambda bb, t, og_: callee_res(t).endswith('try_send') and has_field(og_.of_operand(t['args'][0], bb, 'term'), 'acknack_sender'),
                    EXEMPT_WRITERS, 'handle_reader_submessage')
    # the exemption match in handle_writer_submessage must be on the same entity that selects the reader
    og = Origins(hw, summaries=True)
    rm = [(bb, t) for bb, t in hw.calls() if call_matches(t, 'MessageReceiver::reader_mut')]
    ok = bool(rm) and all(og.of_operand(t['args'][1], bb, 'term') == ('param', 2) for bb, t in rm)
    rep.check(ok, 'R17.2', 'handle_writer_submessage/same-entity', 'the reader is selected by the entity id the exemption was decided on',
              'the reader is looked up by a different entity id than the one the exemption match tested', hw.where())

    # ---------------------------------------------------------------- R17.3
    hs = fx.find(mr + 'handle_submessage')
    hss = fx.find(mr + 'handle_secure_submessage')
    n_calls = 0
    for b in (hs, hss):
        rep.analysed(b)
        og = Origins(b, summaries=True)
        P = Pos(b)
        edges = list(switch_edges(b, fx, og))
        none_edges = [(s_, t_) for s_, t_, cond, lab in edges if lab == 'None' and cond[0] == 'discr' and
                      (has_field(cond, 'security_plugins') or has_call(cond, 'get_plugins') or term_has(cond, lambda x: x[0] == 'call' and x[1].endswith('::map') and has_field(x, 'security_plugins')))]
        for bb, t in b.calls():
            if not call_matches(t, 'MessageReceiver::handle_writer_submessage', 'MessageReceiver::handle_reader_submessage'):
                continue
            n_calls += 1
            is_writer = call_matches(t, 'MessageReceiver::handle_writer_submessage')
            ent = og.of_operand(t['args'][1], bb, 'term') if is_writer else None
            good = list(none_edges)
            why = []
            for s_, t_, cond, lab in edges:
                if lab is True and cond[0] == 'call' and cond[1].endswith('::submessage_not_protected'):
                    g = cond[2][1]
                    # destination guid = GUID{prefix: dest_guid_prefix, entity_id: <the entity the submessage is delivered to>}
                    if not has_field(g, 'dest_guid_prefix'):
                        continue
                    if is_writer:
                        ents = [x for x in term_leaves(g)]
                        if ent is not None and not term_has(g, lambda x: x == ent):
                            continue
                    else:
                        if not has_call(g, 'receiver_entity_id'):
                            continue
                    good.append((s_, t_))
                if b is hss and lab is True and cond[0] == 'call' and cond[1].endswith('::confirm_local_endpoint_guid'):
                    g = cond[2][2]
                    if has_field(g, 'dest_guid_prefix') and has_call(cond[2][1], 'decode_submessage') or has_field(g, 'dest_guid_prefix'):
                        good.append((s_, t_))
                if b is hss and lab == 'Some' and has_call(cond, '::find'):
                    # find(closure) where the closure's true result requires confirm_local_endpoint_guid
                    cl = [c for c in fx.closures_of(b) if any(call_matches(tt, 'confirm_local_endpoint_guid') for _, tt in c.calls())]
                    okc = False
                    for c in cl:
                        cog = Origins(c, summaries=True)
                        cP = Pos(c)
                        ctrue = [(x, y) for x, y, cc, ll in switch_edges(c, fx, cog) if ll is True and cc[0] == 'call' and cc[1].endswith('::confirm_local_endpoint_guid')]
                        defs = []
                        for cbb, csi, cst in c.statements():
                            if cst['s'] == 'assign' and cst['lhs']['l'] == 0 and not cst['lhs'].get('p'):
                                x = cst['rv'].get('x') or {}
                                if cst['rv']['r'] == 'use' and x.get('o') == 'const' and x['k'].get('v') == 0:
                                    continue
                                defs.append((cbb, csi))
                        for cbb, ct in c.calls():
                            if ct['dest']['l'] == 0 and not ct['dest'].get('p'):
                                if call_matches(ct, 'confirm_local_endpoint_guid'):
                                    continue   # result is the confirm call itself
                                defs.append((cbb, 'term'))
                        direct = any(ct['dest']['l'] == 0 and call_matches(ct, 'confirm_local_endpoint_guid') for _cbb, ct in c.calls())
                        if (defs or direct) and all(cP.every_path_passes(None, d, via_edges=ctrue, from_entry=True) for d in defs):
                            okc = True
                    if okc:
                        good.append((s_, t_))
            ok = bool(good) and P.every_path_passes(None, (bb, 'term'), via_edges=good, from_entry=True)
            rep.check(ok, 'R17.3', '%s/call#%d@%s' % (b.key, n_calls, callee_res(t).rsplit('::', 1)[-1]),
                      'under no-plugins / submessage_not_protected(dest) / confirmed crypto handle',
                      'a %s submessage is handed on without the submessage-level gate: not under "no plugins", "submessage_not_protected(dest guid of that entity)" '
                      'or a confirmed crypto handle of a successful decode' % ('writer' if is_writer else 'reader'), b.where(bb))
            if b is hss:
                succ = [(s_, t_) for s_, t_, cond, lab in edges if lab == 'Success' and has_call(cond, 'decode_submessage')]
                ok = bool(succ) and P.every_path_passes(None, (bb, 'term'), via_edges=succ, from_entry=True)
                rep.check(ok, 'R17.3', '%s/call#%d/decode-success' % (b.key, n_calls), 'only on DecodeOutcome::Success of decode_submessage',
                          'a decoded submessage is delivered although decode_submessage did not return Success', b.where(bb))
    rep.floor('R17.3', n_calls, 7, 'hand-overs to handle_writer_submessage / handle_reader_submessage')
    rule_17_8(rep, fx, [hs, hss])
    # handle_secure_submessage only in SecureSubmessage x SecurePostfix
    og = Origins(hs, summaries=True)
    P = Pos(hs)
    edges = list(switch_edges(hs, fx, og))
    st_edges = [(s_, t_) for s_, t_, cond, lab in edges if lab == 'SecureSubmessage']
    pf_edges = [(s_, t_) for s_, t_, cond, lab in edges if lab == 'SecurePostfix']
    for bb, t in hs.calls():
        if call_matches(t, 'MessageReceiver::handle_secure_submessage'):
            ok = bool(st_edges) and bool(pf_edges) and P.every_path_passes(None, (bb, 'term'), via_edges=st_edges, from_entry=True) and \
                P.every_path_passes(None, (bb, 'term'), via_edges=pf_edges, from_entry=True)
            rep.check(ok, 'R17.3', 'handle_submessage/secure-state', 'handle_secure_submessage only in state SecureSubmessage on a SecurePostfix',
                      'handle_secure_submessage can run outside the (SecureSubmessage, SecurePostfix) state', hs.where(bb))
    callers = [b.key for b, _bb, _t in fx.callers_of('MessageReceiver::handle_secure_submessage')]
    rep.check(callers == [hs.key], 'R17.3', 'handle_secure_submessage/callers', 'called only from handle_submessage',
              'handle_secure_submessage has other callers: %s' % callers, hss.where())

    # ---------------------------------------------------------------- R17.4
    for fn, sink, adt in (('decode_and_handle_data', 'Reader::handle_data_msg', 'Data'), ('decode_and_handle_datafrag', 'Reader::handle_datafrag_msg', 'DataFrag')):
        b = fx.find(mr + fn)
        rep.analysed(b)
        bodies = [b] + fx.closures_of(b)
        sink_sites = [(c, bb, t) for c in bodies for bb, t in c.calls() if call_matches(t, sink)]
        if not sink_sites:
            raise CheckBroken('%s: %s not called' % (fn, sink))
        for c, bb, t in sink_sites:
            cog = Origins(c, summaries=True)
            # the Data/DataFrag given to the sink: its serialized_payload must be the closure's own parameter (the decoded payload)
            arg = cog.of_operand(t['args'][1], bb, 'term')
            payload = None
            for x in term_leaves(arg):
                if x[0] == 'agg' and x[1].endswith('::' + adt) and len(x) > 3 and 'serialized_payload' in x[3]:
                    payload = x[2][x[3].index('serialized_payload')]
            okp = payload is not None and c.kind == 'closure' and term_has(payload, lambda y: y == ('param', 2)) and \
                not term_has(payload, lambda y: y[0] == 'field' and y[1] in ('data', 'datafrag'))
            rep.check(okp, 'R17.4', '%s/%s/payload-provenance' % (fn, c.key.rsplit('::', 1)[-1]), 'sink gets the decoded payload (closure parameter)',
                      '%s passes a payload to %s that is not the value produced by the decode step' % (fn, sink), c.where(bb))
            # the closure is the argument of Result::map / Option::map whose receiver derives from decode_serialized_payload
            pog = Origins(b, summaries=True)
            chain_ok = False
            for pbb, pt in b.calls():
                if callee_res(pt).endswith('::map') and len(pt['args']) == 2:
                    a1 = pog.of_operand(pt['args'][1], pbb, 'term')
                    if a1[0] == 'agg' and a1[1] == c.key:
                        recv = pog.of_operand(pt['args'][0], pbb, 'term')
                        # receiver chain must contain decode_serialized_payload (directly or in closure passed to map)
                        def mentions_decode(term):
                            if has_call(term, 'decode_serialized_payload'):
                                return True
                            for y in term_leaves(term):
                                if y[0] == 'agg' and '{closure' in str(y[1]):
                                    for cc in fx.by_key.get(y[1], []):
                                        if any(call_matches(tt, 'SecurityPlugins::decode_serialized_payload') for _, tt in cc.calls()):
                                            return True
                            return False
                        chain_ok = mentions_decode(recv)
                        # receiver must be a Result (map on Ok only) or Option built by .ok()/and_then
                        rk = callee_res(pt)
            rep.check(chain_ok, 'R17.4', '%s/%s/decode-chain' % (fn, c.key.rsplit('::', 1)[-1]), 'sink closure runs on the Ok/Some continuation of the decode chain',
                      '%s: the closure delivering to %s is not applied to the result of decode_serialized_payload' % (fn, sink), c.where(bb))
        # where plugins are present the decode call is used (Some arm) and the bypass is only the None arm
        dec_sites = [(c, bb, t) for c in bodies for bb, t in c.calls() if call_matches(t, 'SecurityPlugins::decode_serialized_payload')]
        rep.check(len(dec_sites) == 1, 'R17.4', '%s/decode-call' % fn, 'decode_serialized_payload called once', '%s does not call decode_serialized_payload exactly once' % fn, b.where())
        for c, bb, t in dec_sites:
            cog = Origins(c, summaries=True)
            cP = Pos(c)
            some = [(s_, t_) for s_, t_, cond, lab in switch_edges(c, fx, cog) if lab == 'Some' and cond[0] == 'discr']
            none = [(s_, t_) for s_, t_, cond, lab in switch_edges(c, fx, cog) if lab == 'None' and cond[0] == 'discr']
            # Ok(encoded) pass-through constructions must be on the None arm
            for cbb, csi, cst in c.statements():
                if cst['s'] == 'assign' and cst['rv']['r'] == 'agg' and cst['rv'].get('variant') == 'Ok' and strip_generics(cst['rv'].get('adt', '')).endswith('result::Result'):
                    okn = bool(none) and cP.every_path_passes(None, (cbb, csi), via_edges=none, from_entry=True)
                    rep.check(okn, 'R17.4', '%s/%s/bypass-only-without-plugins' % (fn, c.key.rsplit('::', 1)[-1]), 'Ok(encoded_payload) only when there are no plugins',
                              '%s passes the payload through undecoded although security plugins are present' % fn, c.where(cbb, csi))
    dsp = fx.find('security::security_plugins::SecurityPlugins::decode_serialized_payload')
    rep.analysed(dsp)
    og = Origins(dsp, summaries=True)
    P = Pos(dsp)
    np_true = [(s_, t_) for s_, t_, cond, lab in switch_edges(dsp, fx, og) if lab is True and
               ((cond[0] == 'call' and cond[1].endswith('::payload_not_protected')) or (has_field(cond, 'payload_not_protected') and has_call(cond, '::contains')))]
    n_pass = 0
    for bb, si, st in dsp.statements():
        if st['s'] == 'assign' and st['rv']['r'] == 'agg' and st['rv'].get('variant') == 'Ok':
            v = og.of_operand(st['rv']['ops'][0], bb, si)
            if v == ('param', 2):
                n_pass += 1
                ok = bool(np_true) and P.every_path_passes(None, (bb, si), via_edges=np_true, from_entry=True)
                rep.check(ok, 'R17.4', 'decode_serialized_payload/pass-through', 'payload returned undecoded only under payload_not_protected(dest)',
                          'decode_serialized_payload returns the payload undecoded without payload_not_protected(destination) being true', dsp.where(bb, si))
    for s_, t_, cond, lab in switch_edges(dsp, fx, og):
        if lab is True and cond[0] == 'call' and cond[1].endswith('::payload_not_protected'):
            rep.check(cond[2][1] == ('param', 5), 'R17.4', 'decode_serialized_payload/asks-destination', 'payload_not_protected(destination_guid)',
                      'payload_not_protected is asked about %s instead of the destination endpoint' % term_str(cond[2][1]), dsp.where(s_))
    rep.floor('R17.4', n_pass, 1, 'pass-through returns of decode_serialized_payload')

    # ---------------------------------------------------------------- R17.5
    sets = {'rtps_not_protected': 'is_rtps_protected', 'submessage_not_protected': 'is_submessage_protected', 'payload_not_protected': 'is_payload_protected'}
    n_ins = 0
    for b in fx.bodies:
        if not b.key.startswith('security::security_plugins::'):
            continue
        og = None
        for bb, t in b.calls():
            if not callee_res(t).endswith('::insert'):
                continue
            og = og or Origins(b, summaries=True)
            recv = og.of_operand(t['args'][0], bb, 'term')
            if recv[0] != 'field' or recv[1] not in sets:
                continue
            n_ins += 1
            attr = sets[recv[1]]
            P = Pos(b)
            good = []
            for s_, t_, cond, lab in switch_edges(b, fx, og):
                if cond[0] == 'field' and cond[1] == attr and lab is False:
                    good.append((s_, t_))
                if cond[0] == 'un' and cond[1] == 'Not' and cond[2][0] == 'field' and cond[2][1] == attr and lab is True:
                    good.append((s_, t_))
            ok = bool(good) and P.every_path_passes(None, (bb, 'term'), via_edges=good, from_entry=True)
            rep.analysed(b)
            rep.check(ok, 'R17.5', '%s/insert:%s' % (b.key, recv[1]), 'inserted only under !%s' % attr,
                      '%s.insert(..) is reachable without %s being false: an endpoint that requires protection would accept plaintext' % (recv[1], attr), b.where(bb))
    rep.floor('R17.5', n_ins, 5, 'inserts into the *_not_protected sets')
    # the predicates are pure membership tests of the right set
    for name in sets:
        pb = fx.find('security::security_plugins::SecurityPlugins::' + name)
        og = Origins(pb, summaries=True)
        t0 = og.of_local(0, pb.return_blocks()[0], 'term')
        ok = t0[0] == 'call' and t0[1].endswith('::contains') and t0[2][0][0] == 'field' and t0[2][0][1] == name and t0[2][1] == ('param', 2)
        rep.check(ok, 'R17.5', 'SecurityPlugins::%s/predicate' % name, 'returns self.%s.contains(arg)' % name,
                  '%s() is not the membership test of self.%s for its argument' % (name, name), pb.where())

    if tier == 'thorough' and 'default' in facts:
        fd = facts['default']
        for pat in READER_SINKS:
            for b, bb, t in fd.callers_of(pat):
                ok = b.key.startswith('rtps::message_receiver::')
                rep.check(ok, 'R17.1', 'default:%s<-%s' % (pat, b.key), 'called from MessageReceiver (default features)',
                          '%s is called from %s (default features)' % (pat, b.key), b.where(bb))

    # ------------------------------------------------------------ R17.6 crossed roles (shared lint, rdv/swaplint.py)
    from rdv import swaplint
    swaplint.run_rule(rep, facts['security'], 'R17.6', ['rtps::message_receiver', 'security::security_plugins'])


def rule_17_7(rep, fx, mr):
    """Interprocedural form of the rtps-level gate: whatever the functions are called and however the hand-over is split up, no route from the message entry to a
    delivery may avoid the test of the special-case flag."""
    rep.rule('R17.7', 'no ungated route: a MessageReceiver function is "ungated" if it contains a delivery (Reader::handle_*_msg, acknack_sender.try_send) or a call of an ungated '
                      'function that is not dominated by a test of must_be_rtps_protection_special_case; fixpoint over the call graph of rtps::message_receiver; the functions that '
                      'receive the parsed message (handle_parsed_message, handle_submessage, handle_secure_submessage) must not be ungated, i.e. every route from them to a delivery '
                      'passes a function in which the flag test dominates the next step')
    bodies = [b for b in fx.bodies if b.key.startswith('rtps::message_receiver::') and not b.j.get('test')]
    info = {}
    for b in bodies:
        og = Origins(b, summaries=True)
        P = Pos(b)
        flag_edges = [(sbb, tg) for sbb, tg, cond, lab in switch_edges(b, fx, og) if cond[0] == 'field' and cond[1] == FLAG and isinstance(lab, bool)]
        sinks = [(bb, 'sink:' + callee_res(t).rsplit('::', 1)[-1]) for bb, t in b.calls() if call_matches(t, *READER_SINKS) or
                 (callee_res(t).endswith('try_send') and has_field(og.of_operand(t['args'][0], bb, 'term'), 'acknack_sender'))]
        calls = []
        for bb, t in b.calls():
            tg, _dyn = fx.call_targets(t)
            for k in tg:
                if k.startswith('rtps::message_receiver::'):
                    calls.append((bb, k))
        # closures created here run as part of this function for the purpose of the gate
        for bb, si, st in b.statements():
            if st['s'] == 'assign' and st['rv']['r'] == 'agg' and st['rv'].get('kind') == 'closure':
                from rdv.core import norm_path
                calls.append((bb, norm_path(st['rv']['def'])))
        info[b.key] = (b, P, flag_edges, sinks, calls)
    ungated = {}
    changed = True
    while changed:
        changed = False
        for k, (b, P, fe, sinks, calls) in info.items():
            if k in ungated:
                continue
            for bb, what in sinks + [(bb, 'call:' + c) for bb, c in calls if c in ungated]:
                dominated = bool(fe) and P.every_path_passes(None, (bb, 'term'), via_edges=fe, from_entry=True)
                if not dominated:
                    ungated[k] = (bb, what)
                    changed = True
                    break
    n_sinks = sum(len(v[3]) for v in info.values())
    rep.floor('R17.7', n_sinks, 6, 'delivery sites in rtps::message_receiver')
    for root in ('handle_parsed_message', 'handle_submessage', 'handle_secure_submessage'):
        k = mr + root
        if k not in info:
            raise CheckBroken('%s not found' % k)
        if k in ungated:
            # spell the route out
            route = [k]
            cur = k
            for _ in range(8):
                bb, what = ungated[cur]
                if what.startswith('call:'):
                    cur = what[5:]
                    route.append(cur)
                else:
                    route.append(what)
                    break
            rep.violation('R17.7', '%s/ungated-route' % root, 'in an rtps-protected domain a submessage can travel %s without %s being tested on the way: the rtps-level gate is bypassed '
                          'on this route' % (' -> '.join(x.rsplit('::', 1)[-1] for x in route), FLAG), info[k][0].where(ungated[k][0]))
        else:
            rep.ok('R17.7', '%s/gated' % root, 'every route to a delivery passes a dominating flag test (%d ungated inner functions, each called only behind the test)' % len(ungated), info[k][0].where())


def rule_17_8(rep, fx, bodies):
    """The other half of the property: traffic that needs no protection, or that carried it, keeps flowing."""
    rep.rule('R17.8', 'keeps flowing: in handle_submessage / handle_secure_submessage, once submessage_not_protected(dest) or confirm_local_endpoint_guid(..) has answered true for an '
                      'entity, every path to the end of that step hands the submessage to handle_writer_submessage / handle_reader_submessage')
    n = 0
    for b in bodies:
        og = Origins(b, summaries=True)
        P = Pos(b)
        edges = list(switch_edges(b, fx, og))
        handlers = [(bb, 'term') for bb, t in b.calls() if call_matches(t, 'MessageReceiver::handle_writer_submessage', 'MessageReceiver::handle_reader_submessage')]
        nxt = [(nb, 'term') for nb, t in b.calls() if callee_res(t).endswith('::next')]
        ends = [(r, 'term') for r in b.return_blocks()] + nxt
        acc = [(s_, t_, cond[1].rsplit('::', 1)[-1]) for s_, t_, cond, lab in edges if lab is True and cond[0] == 'call' and
               cond[1].endswith(('::submessage_not_protected', '::confirm_local_endpoint_guid'))]
        # the reader that a find(..) over the local readers selected (its closure confirms the crypto handle / tests the protection of that reader: R17.3)
        acc += [(s_, t_, 'find') for s_, t_, cond, lab in edges if lab == 'Some' and cond[0] == 'discr' and cond[1][0] == 'call' and cond[1][1].endswith('::find')]
        for s_, t_, what in acc:
            n += 1
            leak = [e for e in ends if P.can_reach((t_, 0), e, avoid_pos=handlers)]
            rep.check(not leak, 'R17.8', '%s/%s#%d' % (b.key.rsplit('::', 1)[-1], what, n), 'true => the submessage is handed on, on every path',
                      '%s: after %s answered true the submessage can be dropped without being handed to handle_writer/reader_submessage: traffic that needs no protection (or was '
                      'properly protected) stops flowing' % (b.key.rsplit('::', 1)[-1], what), b.where(s_))
    rep.floor('R17.8', n, 3, 'accepting answers in handle_submessage / handle_secure_submessage')

    # ------------------------------------------------------------ R17.9 the same filter with the security feature on (three sites: the Security arm has its own)
    from rules import destfilter
    destfilter.run_rule(rep, fx, 'R17.9', 'default', floor=3)

    # ------------------------------------------------------------ R17.10 the reader selection with the security feature (two closures: plain and secured path)
    from rules import dispatch
    dispatch.run_rule(rep, fx, 'R17.10', 'default', floor=2)
    dispatch.run_kinds(rep, fx, 'R17.11', 'security', prefix='', declare=True)
    dispatch.run_fresh_state(rep, fx, 'R17.12')
    dispatch.run_secure_dispatch(rep, fx, 'R17.13')

