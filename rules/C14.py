"""C14  Every RTPS message this implementation emits parses back to itself.

Round-trip equality for all values is a value property and is NOT decided. Decided: header
length provenance, agreement of the hand-written speedy codec pairs on the sequence of wire
primitives, flag <-> optional-field coupling, and the 256-element NumberSet window.
"""
from rdv.core import (CheckBroken, Origins, Pos, call_matches, callee_res, natural_loops, norm_path, primary_edges,
                      strip_generics, switch_edges, term_has, term_leaves, term_str)

CONFIGS = ['default', 'security']     # the security arms are not compiled by the default test suite: decide them on every run
THOROUGH_CONFIGS = []
LEVEL = 'other'


def has_field(t, name):
    return term_has(t, lambda x: x[0] == 'field' and x[1] == name)


def has_call(t, suffix):
    return term_has(t, lambda x: x[0] == 'call' and x[1].endswith(suffix))


def sizeof(fx, ty, depth=0):
    """Serialized size of a plain fixed-size type from the ADT table (None if unknown)."""
    ty = ty.strip()
    prim = {'u8': 1, 'i8': 1, 'u16': 2, 'i16': 2, 'u32': 4, 'i32': 4, 'u64': 8, 'i64': 8, 'bool': 1}
    if ty in prim:
        return prim[ty]
    if ty.startswith('[') and ';' in ty:
        el, n = ty[1:-1].rsplit(';', 1)
        s = sizeof(fx, el, depth + 1)
        return s * int(n) if s is not None else None
    a = fx.adts.get(strip_generics(ty))
    if a and a['kind'] == 'struct' and depth < 5:
        tot = 0
        for f in a['variants'][0]['fields']:
            s = sizeof(fx, f['ty'], depth + 1)
            if s is None:
                return None
            tot += s
        return tot
    return None


def codec_sequences(body, kind):
    """Set of sequences of wire primitives along the acyclic paths of a write_to / read_from body (loop bodies once, marked *)."""
    loops = natural_loops(body)
    in_loop = set()
    for _h, blocks, _s in loops:
        in_loop |= blocks
    ev = {}
    for bb, t in body.calls():
        last = strip_generics(callee_res(t)).rsplit('::', 1)[-1]
        ty = None
        if kind == 'w' and last.startswith('write_'):
            if last == 'write_value':
                ty = (t['f'].get('args') or ['?'])[-1]
            elif last in ('write_bytes', 'write_slice'):
                ty = 'bytes'
            else:
                ty = last[len('write_'):]
        if kind == 'r' and last.startswith('read_'):
            if last == 'read_value':
                ty = (t['f'].get('args') or ['?'])[-1]
            elif last in ('read_bytes', 'read_vec', 'read_bytes_cow'):
                ty = 'bytes'
            else:
                ty = last[len('read_'):]
        if ty is not None:
            ev[bb] = ty + ('*' if bb in in_loop else '')
    seqs = set()
    count = [0]

    def dfs(bb, seq, seen):
        count[0] += 1
        if count[0] > 20000:
            raise CheckBroken('%s: too many paths' % body.key)
        if bb in ev:
            seq = seq + (ev[bb],)
        t = body.blocks[bb]['term']
        if t['t'] == 'return':
            seqs.add(seq)
            return
        for s in body.succs(bb):
            if (bb, s) in seen:
                continue
            dfs(s, seq, seen | {(bb, s)})
    dfs(0, (), frozenset())
    # error exits of the reader (shorter prefixes) are not message shapes: keep maximal sequences only for readers
    return seqs


def run(rep, facts, tier):
    fx = facts['default']
    rep.explanation = ('Provenance of every SubmessageHeader.content_length (length function of the very body placed in the same Submessage, or a literal equal to the fixed size of the '
                       'body type computed from the ADT table); agreement of hand-written Writable/Readable pairs on the sequence of wire primitives along all paths; InlineQos flag and '
                       'inline_qos presence controlled by one boolean, Data/Key flag table vs payload presence; interval reasoning over the NumberSet window constants of writer and parser.')
    rep.assume('derived speedy codecs agree by construction (derive)', 'Data/DataFrag parsing uses custom cursor code and is not covered by the sequence rule (see C06 for its bounds)')
    rep.rule('R14.1', 'every SubmessageHeader{content_length} built by the library takes its value from len_serialized()/write_to_vec().len() of the body that goes into the same Submessage, '
                      'or is a literal equal to the fixed serialized size of that body type')
    rep.rule('R14.2', 'hand-written codec pairs (SequenceNumber, NumberSet, SubmessageHeader) write and read the same sequence of wire primitives on every path')
    rep.rule('R14.3', 'data_msg: the InlineQos flag and Some(inline_qos) are controlled by the same boolean; the DDSData variant decides (payload present, Data flag, Key flag) as the reader\'s table expects')
    rep.rule('R14.4', 'NumberSet window: the largest num_bits from_base_and_set can produce does not exceed what read_from accepts (256); the ACKNACK producer limits its span likewise')

    # ------------------------------------------------------------ R14.1
    n = 0
    fixed = {'INFO_DST': ('messages::submessages::info_destination::InfoDestination', None), 'INFO_TS': ('structure::time::Timestamp', 0)}
    for b in fx.bodies:
        og = None
        for bb, si, st in b.statements():
            if not (st['s'] == 'assign' and st['rv']['r'] == 'agg' and st['rv'].get('kind') == 'adt' and strip_generics(st['rv']['adt']).endswith('SubmessageHeader')
                    and 'content_length' in (st['rv'].get('fields') or [])):
                continue
            if b.impl_trait and 'Readable' in b.impl_trait:
                continue
            n += 1
            rep.analysed(b)
            og = og or Origins(b, summaries=False)
            f = st['rv']['fields']
            v = og.of_operand(st['rv']['ops'][f.index('content_length')], bb, si)
            k = og.of_operand(st['rv']['ops'][f.index('kind')], bb, si)
            kind = str(k[2]).rsplit('::', 1)[-1] if k[0] == 'const' else '?'
            key = '%s/header:%s' % (b.key, kind)
            lens = [x for x in term_leaves(v) if x[0] == 'call' and (x[1].endswith('len_serialized') or x[1].endswith('::len'))]
            consts = [x for x in term_leaves(v) if x[0] == 'const' and x[1] == 'int']
            if lens:
                x = lens[0]
                body_term = x[2][0]
                for _ in range(12):
                    if body_term[0] == 'field' and body_term[1] == '0':
                        body_term = body_term[2]
                    elif body_term[0] == 'variant' and body_term[1] in ('Ok', 'Continue', 'Some'):
                        body_term = body_term[2]
                    elif body_term[0] == 'call' and body_term[1].rsplit('::', 1)[-1] in ('write_to_vec', 'write_to_vec_with_ctx', 'unwrap', 'branch', 'as_slice', 'deref'):
                        body_term = body_term[2][0]
                    else:
                        break
                # the Submessage built in this function carries that same body
                same = False
                for bb2, si2, st2 in b.statements():
                    if st2['s'] == 'assign' and st2['rv']['r'] == 'agg' and strip_generics(st2['rv'].get('adt', '')).endswith('::Submessage'):
                        f2 = st2['rv']['fields']
                        body = og.of_operand(st2['rv']['ops'][f2.index('body')], bb2, si2)
                        bt = body_term[1] if body_term[0] == 'mutated' else body_term
                        if term_has(body, lambda y: y == bt or y == body_term or (y[0] == 'call' and y[1].endswith('::clone') and y[2][0] == bt)) or (bt == ('param', 1) and term_has(body, lambda y: y == ('param', 1))):
                            same = True
                rep.check(same, 'R14.1', key, 'content_length = length of the body placed in the same Submessage',
                          'content_length is the length of %s, which is not the body placed in the same Submessage' % term_str(body_term)[:80], b.where(bb, si))
            elif consts and v[0] in ('const', 'phi'):
                vals = sorted(set(x[2] for x in consts))
                if kind in fixed:
                    size = sizeof(fx, fixed[kind][0])
                    allowed = {size} | ({fixed[kind][1]} if fixed[kind][1] is not None else set())
                    rep.check(size is not None and set(vals) <= allowed and size in vals, 'R14.1', key, 'literal %s = fixed size of %s (%s bytes)' % (vals, fixed[kind][0].rsplit('::', 1)[-1], size),
                              'content_length literal %s does not equal the fixed serialized size %s of %s' % (vals, size, fixed[kind][0]), b.where(bb, si))
                else:
                    rep.violation('R14.1', key, 'content_length is a literal %s for a submessage kind without a fixed-size body' % vals, b.where(bb, si))
            else:
                rep.violation('R14.1', key, 'content_length = %s is neither a length of the body nor a fixed-size literal' % term_str(v)[:100], b.where(bb, si))
    rep.floor('R14.1', n, 9, 'SubmessageHeader constructions (default features)')

    # ------------------------------------------------------------ R14.2
    pairs = 0
    for ty in ('structure::sequence_number::SequenceNumber', 'structure::sequence_number::NumberSet', 'messages::submessages::submessage_header::SubmessageHeader'):
        w = [b for b in fx.bodies if b.name == 'write_to' and strip_generics(b.impl_self or '') == ty]
        r = [b for b in fx.bodies if b.name == 'read_from' and strip_generics(b.impl_self or '') == ty]
        if len(w) != 1 or len(r) != 1:
            raise CheckBroken('%s: hand-written write_to/read_from pair not found (%d/%d)' % (ty, len(w), len(r)))
        pairs += 1
        rep.analysed(w[0], r[0])
        ws = codec_sequences(w[0], 'w')
        rs = codec_sequences(r[0], 'r')

        def normseq(s):
            out = []
            for x in s:
                x = x.replace('&', '').strip()
                out.append(x)
            return tuple(out)
        ws = set(normseq(s) for s in ws)
        rs = set(normseq(s) for s in rs)
        wmax = set(s for s in ws if not any(s != o and o[:len(s)] == s for o in ws))
        rmax = set(s for s in rs if not any(s != o and o[:len(s)] == s for o in rs))
        ok = wmax == rmax and bool(wmax)
        rep.check(ok, 'R14.2', '%s/sequence' % ty.rsplit('::', 1)[-1], 'writer and reader agree: %s' % sorted(wmax)[:2],
                  '%s: write_to emits %s but read_from consumes %s' % (ty.rsplit('::', 1)[-1], sorted(wmax), sorted(rmax)), w[0].where())
    rep.floor('R14.2', pairs, 3, 'hand-written codec pairs')

    # ------------------------------------------------------------ R14.3
    dm = fx.find('rtps::message::MessageBuilder::data_msg')
    rep.analysed(dm)
    og = Origins(dm, summaries=False)
    P = Pos(dm)
    edges = list(switch_edges(dm, fx, og))
    # the boolean controlling Some(param_list)/None and the one controlling from_flag(InlineQos)/empty()
    def controlling(site):
        out = []
        for s_, tg, cond, lab in edges:
            if isinstance(lab, bool) and P.can_reach((tg, 0), site) and any((t2, 0) != P.norm(site) and not P.can_reach((t2, 0), site, avoid_pos=[(s_, 'term')]) for s2, t2, c2, l2 in edges if s2 == s_ and t2 != tg):
                if not term_has(cond, lambda y: y[0] == 'call' and 'log' in y[1]):
                    out.append((cond, lab))
        return out
    some_sites = [(bb, si) for bb, si, st in dm.statements() if st['s'] == 'assign' and st['rv']['r'] == 'agg' and st['rv'].get('variant') == 'Some' and
                  term_has(og.of_operand(st['rv']['ops'][0], bb, si), lambda y: y[0] == 'call' and y[1].endswith('ParameterList::new'))]
    flag_sites = []
    for bb, t in dm.calls():
        if callee_res(t).endswith('from_flag') and t['args']:
            a = og.of_operand(t['args'][0], bb, 'term')
            if a[0] == 'agg' and str(a[1]).endswith('DATA_Flags::InlineQos'):
                flag_sites.append((bb, 'term'))
    ok = bool(some_sites) and bool(flag_sites)
    c_some = [c for s_ in some_sites for c in controlling(s_)]
    c_flag = []
    for fs in flag_sites:
        cs = controlling(fs)
        if cs:
            c_flag.append(cs)
    # at least one InlineQos flag site is controlled by exactly the condition controlling Some(param_list)
    match = any(set(map(repr, cs)) == set(map(repr, c_some)) for cs in c_flag) if c_some else False
    rep.check(ok and match, 'R14.3', 'data_msg/inline-qos-coupling', 'InlineQos flag <=> inline_qos = Some(..) (same controlling condition)',
              'the InlineQos flag and the presence of inline_qos in data_msg are not controlled by the same condition: a reader would mis-parse the submessage', dm.where())

    # ... and that condition is "the parameter list is not empty" (mutation triage: the inverted test keeps flag and Option coupled and drops every inline QoS parameter -
    # key hash, status info of a dispose, related sample identity - while announcing an empty list otherwise); both builders
    def nonempty(c):
        cond, lab = c
        if cond[0] == 'un' and cond[1] == 'Not' and cond[2][0] == 'call' and cond[2][1].endswith('is_empty') and term_has(cond[2], lambda y: y[0] == 'call' and y[1].endswith('ParameterList::new')):
            return lab is True
        if cond[0] == 'call' and cond[1].endswith('is_empty') and term_has(cond, lambda y: y[0] == 'call' and y[1].endswith('ParameterList::new')):
            return lab is False
        return None
    for fn in ('data_msg', 'data_frag_msg'):
        fb = fx.find('rtps::message::MessageBuilder::' + fn)
        rep.analysed(fb)
        og2 = Origins(fb, summaries=False)
        P2 = Pos(fb)
        edges2 = list(switch_edges(fb, fx, og2))

        def controlling2(site):
            out = []
            for s_, tg, cond, lab in edges2:
                if isinstance(lab, bool) and P2.can_reach((tg, 0), site) and any((t2, 0) != P2.norm(site) and not P2.can_reach((t2, 0), site, avoid_pos=[(s_, 'term')]) for s2, t2, c2, l2 in edges2 if s2 == s_ and t2 != tg):
                    if not term_has(cond, lambda y: y[0] == 'call' and 'log' in y[1]):
                        out.append((cond, lab))
            return out
        somes = [(bb, si) for bb, si, st in fb.statements() if st['s'] == 'assign' and st['rv']['r'] == 'agg' and st['rv'].get('variant') == 'Some' and
                 term_has(og2.of_operand(st['rv']['ops'][0], bb, si), lambda y: y[0] == 'call' and y[1].endswith('ParameterList::new'))]
        verdicts = [nonempty(c) for s_ in somes for c in controlling2(s_)]
        verdicts = [v for v in verdicts if v is not None]
        rep.check(bool(somes) and bool(verdicts) and all(verdicts), 'R14.3', '%s/inline-qos-iff-nonempty' % fn, 'inline_qos = Some(list) exactly when the list is not empty',
                  '%s does not send the inline QoS parameter list exactly when it has parameters (the test on is_empty() is missing or inverted): the parameters never reach the '
                  'reader' % fn, fb.where(somes[0][0]) if somes else fb.where())
    # variant table
    table = {}
    for s_, tg, cond, lab in edges:
        if cond[0] == 'discr' and has_field(cond, 'data_value') and isinstance(lab, str) and lab in ('Data', 'DisposeByKey', 'DisposeByKeyHash'):
            region = set(x for x in dm.live_blocks() if dm.dominates(tg, x))
            for bb in sorted(region):
                t = dm.blocks[bb]['term']
                if t['t'] == 'call' and callee_res(t).endswith('from_flag') and t['args']:
                    a = og.of_operand(t['args'][0], bb, 'term')
                    if a[0] == 'agg' and 'DATA_Flags::' in str(a[1]):
                        table.setdefault(lab, {})['flag'] = str(a[1]).rsplit('::', 1)[-1]
                for si, st in enumerate(dm.blocks[bb]['st']):
                    if st['s'] == 'assign' and st['rv']['r'] == 'agg' and st['rv'].get('variant') in ('Some', 'None') and strip_generics(st['rv'].get('adt', '')).endswith('Option') and ('Bytes' in dm.locals[st['lhs']['l']] or 'SerializedPayload' in dm.locals[st['lhs']['l']]):
                        table.setdefault(lab, {}).setdefault('payload', st['rv']['variant'])
    want = {'Data': {'flag': 'Data', 'payload': 'Some'}, 'DisposeByKey': {'flag': 'Key', 'payload': 'Some'}, 'DisposeByKeyHash': {'flag': 'InlineQos', 'payload': 'None'}}
    rep.check(table == want, 'R14.3', 'data_msg/variant-table', 'Data->(payload, D), DisposeByKey->(payload, K), DisposeByKeyHash->(no payload, Q)',
              'data_msg maps DDSData variants to (flag, payload) as %s; the reader\'s table expects %s' % (table, want), dm.where())

    # ------------------------------------------------------------ R14.4
    fb = [b for b in fx.bodies if b.name == 'from_base_and_set' and 'NumberSet' in (b.impl_self or '')]
    rf = [b for b in fx.bodies if b.name == 'read_from' and strip_generics(b.impl_self or '') == 'structure::sequence_number::NumberSet']
    if len(fb) != 1 or len(rf) != 1:
        raise CheckBroken('NumberSet::from_base_and_set / read_from not found')
    fb, rf = fb[0], rf[0]
    rep.analysed(fb, rf)
    og = Origins(fb, summaries=False)
    # guard: cmp(i64(end) - i64(base), K1)
    guard = None
    for s_, tg, cond, lab in switch_edges(fb, fx, og):
        if cond[0] == 'bin' and cond[1] in ('Ge', 'Gt', 'Lt', 'Le') and cond[3][0] == 'const' and cond[3][1] == 'int' and cond[3][2] >= 64 and \
                term_has(cond[2], lambda y: y[0] == 'bin' and y[1].startswith('Sub')):
            guard = (cond[1], cond[3][2])
    # truncation value base + K2: the add call whose operand is from(K2) with K2 >= 64
    k2 = None
    k3 = None
    for bb, t in fb.calls():
        d = t['f'].get('def') or ''
        if d.endswith('ops::Add::add') or d.endswith('Add::add'):
            for a in t['args']:
                ta = og.of_operand(a, bb, 'term')
                for y in term_leaves(ta):
                    if y[0] == 'const' and y[1] == 'int':
                        if y[2] >= 64:
                            k2 = y[2]
                        elif y[2] >= 1 and term_has(og.of_operand(t['args'][0], bb, 'term'), lambda z: z[0] == 'call' and z[1].endswith('Sub::sub')):
                            k3 = y[2]
    if guard is None or k2 is None or k3 is None:
        raise CheckBroken('from_base_and_set: window constants not recognised (guard=%s, truncation=%s, num_bits offset=%s)' % (guard, k2, k3))
    op, k1 = guard
    max_pass = {'Ge': k1 - 1, 'Gt': k1, 'Lt': k1 - 1, 'Le': k1}[op]   # largest (end-base) that is NOT truncated
    max_bits = max(max_pass, k2) + k3
    ogr = Origins(rf, summaries=False)
    accept = None
    for s_, tg, cond, lab in switch_edges(rf, fx, ogr):
        if cond[0] == 'bin' and cond[1] in ('Gt', 'Ge') and cond[3][0] == 'const' and cond[3][1] == 'int' and cond[3][2] >= 64:
            accept = cond[3][2] if cond[1] == 'Gt' else cond[3][2] - 1
    if accept is None:
        raise CheckBroken('NumberSet::read_from: size guard not recognised')
    rep.check(max_bits <= accept, 'R14.4', 'NumberSet/window', 'from_base_and_set produces at most %d bits; read_from accepts up to %d' % (max_bits, accept),
              'NumberSet::from_base_and_set can produce num_bits = %d (untruncated span up to %d, truncation to base+%d, +%d) but read_from rejects more than %d: '
              'an emitted ACKNACK/NACKFRAG/GAP would not parse back' % (max_bits, max_pass, k2, k3, accept), fb.where())
    rep.check(accept == 256, 'R14.4', 'NumberSet/parser-limit', 'parser accepts at most 256 bits (RTPS 8.3.5.5)', 'the NumberSet parser limit is %d, RTPS prescribes 256' % accept, rf.where())
    # iteration never reports a member outside the window: the iterator stops at num_bits
    it = [b for b in fx.bodies if b.name == 'next' and 'NumberSetIter' in (b.impl_self or '')]
    mk = [b for b in fx.bodies if b.name == 'iter' and strip_generics(b.impl_self or '') == 'structure::sequence_number::NumberSet']
    if not it or not mk:
        raise CheckBroken('NumberSetIter::next / NumberSet::iter not found')
    ogi = Origins(it[0], summaries=False)
    ok = any(cond[0] == 'bin' and cond[1] == 'Lt' and has_field(cond[2], 'at_bit') and has_field(cond[3], 'rev_at_bit') for _s, _t, cond, _l in switch_edges(it[0], fx, ogi))
    ogm = Origins(mk[0], summaries=False)
    okm = False
    for bb, si, st in mk[0].statements():
        if st['s'] == 'assign' and st['rv']['r'] == 'agg' and strip_generics(st['rv'].get('adt', '')).endswith('NumberSetIter'):
            f = st['rv']['fields']
            okm = ogm.of_operand(st['rv']['ops'][f.index('rev_at_bit')], bb, si) == ('field', 'num_bits', ('param', 1)) and ogm.of_operand(st['rv']['ops'][f.index('at_bit')], bb, si) == ('const', 'int', 0)
    rep.check(ok and okm, 'R14.4', 'NumberSetIter/bounded', 'iteration runs over bits [0, num_bits)', 'NumberSet iteration is not bounded by [0, num_bits): members outside the window could be reported', it[0].where())

    if 'security' in facts:
        fs = facts['security']
        n2 = 0
        for b in fs.bodies:
            for bb, si, st in b.statements():
                if st['s'] == 'assign' and st['rv']['r'] == 'agg' and st['rv'].get('kind') == 'adt' and strip_generics(st['rv']['adt']).endswith('SubmessageHeader') and 'content_length' in (st['rv'].get('fields') or []):
                    if b.impl_trait and 'Readable' in b.impl_trait:
                        continue
                    n2 += 1
                    og2 = Origins(b, summaries=False)
                    f = st['rv']['fields']
                    v = og2.of_operand(st['rv']['ops'][f.index('content_length')], bb, si)
                    okv = bool([x for x in term_leaves(v) if x[0] == 'call' and (x[1].endswith('len_serialized') or x[1].endswith('::len'))]) or v[0] in ('const', 'phi')
                    rep.check(okv, 'R14.1', 'security:%s/header@%d' % (b.key, n2), 'content_length from a length function or literal', 'content_length = %s' % term_str(v)[:80], b.where(bb, si))
        rep.floor('R14.1', n2, 14, 'SubmessageHeader constructions (security features)')

    # ------------------------------------------------------------ R14.5 (shared with C01 R01.7)
    from rules import numberset
    numberset.run_rule(rep, fx, 'R14.5')

    # ------------------------------------------------------------ R14.6 length functions vs writers
    rule_14_6(rep, fx)
    rule_14_7(rep, fx)
    rule_14_8(rep, fx)
    rule_14_9(rep, fx)
    from rules import numberset as _ns
    _ns.rule_from_base_and_set(rep, fx, 'R14.11')
    rule_14_12(rep, fx)
    rule_14_13(rep, fx)
    if 'security' in facts:
        default_types = set(strip_generics(b.impl_self or '') for b in fx.bodies if b.name == 'len_serialized' and b.impl_self)
        rule_14_6(rep, facts['security'], pre='security:', skip=default_types)

    # ------------------------------------------------------------ R14.10 crossed roles (shared lint, rdv/swaplint.py)
    from rdv import swaplint
    swaplint.run_rule(rep, facts['default'], 'R14.10', ['messages::', 'rtps::message', 'rtps::submessage', 'structure::sequence_number'])


def rule_14_6(rep, fx, pre='', skip=()):
    from rdv.sizes import Sizes, Unsupported, show, freeze
    from rdv.core import Origins, callee_res, strip_generics, term_has
    from rdv.poly import poly
    rep.rule('R14.6', 'every len_serialized() equals the number of bytes the type\'s write_to emits, for every presence combination of its optional fields and every element count: both are '
                      'turned into size polynomials over the fields of self (loops summarised, pad-to-4 as an atom reduced modulo 4) and compared; the length written into a submessage '
                      'header (R14.1) therefore agrees with the bytes that follow')
    S = Sizes(fx)
    types = sorted(set(strip_generics(b.impl_self or '') for b in fx.bodies if b.name == 'len_serialized' and b.kind in ('fn', 'assoc_fn') and b.impl_self))
    n = 0
    for ty in types:
        if S.writable_body(ty) is None or ty in skip:
            continue
        n += 1
        short = pre + ty.rsplit('::', 1)[-1]
        rep.analysed(S.len_body(ty), S.writable_body(ty))
        try:
            rows = S.compare(ty)
        except Unsupported as e:
            rep.violation('R14.6', '%s/len-vs-write' % short, '%s: the size expressions of len_serialized()/write_to cannot be read (%s); agreement is not established' % (short, e), S.len_body(ty).where())
            continue
        bad = []
        for facts, l, w, eq in rows:
            if eq:
                continue
            if short.endswith('NumberSet'):
                # representation invariant bitmap.len() == (num_bits + 31) / 32, checked below: min(word_count, bitmap.len()) = word_count
                w2 = {}
                for m, c in w.items():
                    m2 = tuple((sorted(a[1], key=repr)[0] if False else a) for a in m)
                    new_m = []
                    for a in m:
                        if a[0] == 'min':
                            alts = [dict(x) for x in a[1]]
                            wc = [x for x in alts if not any(y[0] == 'len' for mm in x for y in mm)]
                            ln = [x for x in alts if any(y[0] == 'len' and y[1] == ('field', 'bitmap', ('param', 1)) for mm in x for y in mm)]
                            if len(wc) == 1 and len(ln) == 1 and len(wc[0]) == 1 and list(wc[0].values()) == [1] and len(list(wc[0])[0]) == 1:
                                new_m.append(list(wc[0])[0][0])
                                continue
                        new_m.append(a)
                    w2[tuple(sorted(new_m, key=repr))] = c
                if freeze(w2) == freeze(l):
                    continue
            bad.append('%s: len_serialized = %s, written = %s' % (', '.join('%s is %s' % (show({(("val", k),): 1}), v) for k, v in facts.items()) or 'always', show(l), show(w)))
        rep.check(not bad, 'R14.6', '%s/len-vs-write' % short, '%d case(s): len_serialized() = bytes written = %s' % (len(rows), show(rows[0][1])),
                  '%s::len_serialized() disagrees with the bytes %s::write_to emits (%s): the submessage length in the header does not match the body, a receiver skips to the wrong place or cuts '
                  'the body short' % (short, short, '; '.join(sorted(set(bad))[:3])), S.len_body(ty).where())
    if pre:
        return types
    rep.floor('R14.6', n, 9, 'types with both len_serialized() and a Writable implementation')
    # ---- NumberSet representation invariant used above: bitmap.len() == (num_bits + 31) / 32
    NS = 'structure::sequence_number::NumberSet'
    viol = []
    n_ctor = 0
    for b in fx.bodies:
        derived = ' as std::clone::Clone>::clone' in b.key
        for bb, si, st in b.statements():
            if st['s'] != 'assign':
                continue
            if any(isinstance(e, dict) and e.get('n') in ('bitmap', 'num_bits') and NS in str(e.get('adt', NS)) for e in (st['lhs'].get('p') or [])) and \
                    strip_generics(b.impl_self or '') == NS and not (st['lhs'].get('p') or [])[-1] == '*':
                last = (st['lhs'].get('p') or [])[-1]
                if isinstance(last, dict) and last.get('n') in ('bitmap', 'num_bits'):
                    viol.append('%s stores to NumberSet.%s' % (b.key, last['n']))
            if st['rv']['r'] == 'agg' and strip_generics(str(st['rv'].get('adt'))) == NS and not derived:
                n_ctor += 1
                og = Origins(b, summaries=False)
                f = dict(zip(st['rv']['fields'], [og.of_operand(o, bb, si) for o in st['rv']['ops']]))
                bm, nb = f['bitmap'], f['num_bits']
                pargs = dict((i, ('param', i)) for i in range(1, b.argc + 1))
                ok_new = False
                if bm[0] == 'call' and bm[1].endswith('from_elem') and len(bm[2]) > 1:
                    try:
                        nbp = S.expr(b, og, nb, pargs, 0)
                        from rdv.poly import padd
                        want = freeze({(('Div', freeze(padd(nbp, {(): 31})), freeze({(): 32})),): 1})
                        ok_new = freeze(S.expr(b, og, bm[2][1], pargs, 0)) == want
                    except Unsupported:
                        ok_new = False
                # parser: with_capacity(word_count) filled by one push per iteration of 0..word_count, errors leave the function
                ok_read = term_has(bm, lambda x: x[0] == 'call' and x[1].endswith('with_capacity')) and b.key.endswith('::read_from') and \
                    sum(1 for _bb, t in b.calls() if callee_res(t).endswith('Vec::<T, A>::push') or callee_res(t).endswith('::push')) == 1
                if not (ok_new or ok_read):
                    viol.append('%s builds a NumberSet whose bitmap is not sized (num_bits + 31) / 32' % b.key)
        if strip_generics(b.impl_self or '') == NS:
            og = None
            for bb, t in b.calls():
                if callee_res(t).rsplit('::', 1)[-1] in ('push', 'pop', 'truncate', 'resize', 'clear', 'extend', 'remove', 'append', 'drain', 'insert', 'extend_from_slice') and \
                        'Vec' in callee_res(t) and not b.key.endswith('::read_from'):
                    og = og or Origins(b, summaries=False)
                    if term_has(og.of_operand(t['args'][0], bb, 'term'), lambda x: x[0] == 'field' and x[1] == 'bitmap'):
                        viol.append('%s changes the length of NumberSet.bitmap (%s)' % (b.key, callee_res(t).rsplit('::', 1)[-1]))
    rep.check(not viol and n_ctor >= 2, 'R14.6', 'NumberSet/bitmap-length-invariant', 'bitmap.len() == (num_bits + 31) / 32 in all %d constructions, never resized afterwards' % n_ctor,
              'the NumberSet invariant bitmap.len() == (num_bits + 31) / 32 can be broken (%s): write_to then emits fewer words than len_serialized() counts' % '; '.join(viol[:3]), '')


def rule_14_7(rep, fx):
    """octetsToInlineQos is a literal in Data::write_to / DataFrag::write_to; it must equal the bytes written between that field and the inline QoS."""
    from rdv.sizes import Sizes, Unsupported
    from rdv.core import Origins, callee_res, strip_generics
    rep.rule('R14.7', 'octetsToInlineQos: the literal written as the second 16-bit field of DATA / DATAFRAG equals the number of bytes written between that field and the inline QoS '
                      '(the fixed-size fields that follow it), so a receiver that seeks by it lands on the parameter list')
    S = Sizes(fx)
    for ty in ('messages::submessages::data::Data', 'messages::submessages::data_frag::DataFrag'):
        wb = S.writable_body(ty)
        if wb is None:
            raise CheckBroken('%s::write_to not found' % ty)
        rep.analysed(wb)
        og = Origins(wb, summaries=False)
        # the unconditional prefix: follow the entry block along the Ok continuation of each `?` until the first switch that is not error propagation
        seq = []
        bb = 0
        seen = set()
        while bb not in seen:
            seen.add(bb)
            t = wb.blocks[bb]['term']
            if t['t'] == 'call':
                d = strip_generics(t['f'].get('def') or '')
                if d.startswith('speedy::Writer::'):
                    try:
                        c = S.contribution(wb, og, bb, t, {1: ('param', 1)})
                    except Unsupported:
                        c = None
                    lit = None
                    if d.endswith('write_u16') and t['args'][1].get('o') == 'const':
                        lit = int(t['args'][1]['k']['v'])
                    seq.append((d.rsplit('::', 1)[-1], c, lit))
                bb = t.get('target')
                if bb is None:
                    break
                continue
            if t['t'] == 'switch':
                # `?` lowers to branch(): Continue edge = arm 0
                cont = [a[1] for a in t['arms'] if a[0] == 0]
                prev_call = [x for x in seq]
                # stop at a switch that does not test a Try::branch result
                st_discr = [st for st in wb.blocks[bb]['st'] if st['s'] == 'assign' and st['rv']['r'] == 'discr']
                is_try = bool(st_discr) and 'ControlFlow' in (st_discr[-1]['rv'].get('ty') or '')
                if not is_try or not cont:
                    break
                bb = cont[0]
                continue
            if t['t'] in ('goto', 'drop', 'assert'):
                bb = t['target']
                continue
            break
        short = ty.rsplit('::', 1)[-1]
        ok = False
        why = 'prefix %s' % [(n, l) for n, _c, l in seq][:6]
        if len(seq) >= 3 and seq[0][0] == 'write_u16' and seq[1][0] == 'write_u16' and seq[1][2] is not None:
            total = 0
            for n, c, l in seq[2:]:
                if c is None or any(m != () for m in c):
                    break
                total += c.get((), 0)
            ok = total == seq[1][2]
            why = 'literal %d, fixed fields after it %d bytes' % (seq[1][2], total)
        rep.check(ok, 'R14.7', '%s/octets-to-inline-qos' % short, why,
                  '%s::write_to writes octetsToInlineQos = a literal that is not the size of the fields between it and the inline QoS (%s)' % (short, why), wb.where())


def writer_prefix(S, wb):
    """Unconditional prefix of a write_to: [(op, wire type, field name or literal, size poly)] in execution order (Ok continuation of each `?`)."""
    from rdv.sizes import Unsupported
    from rdv.core import Origins, strip_generics
    og = Origins(wb, summaries=False)
    seq = []
    bb = 0
    seen = set()
    while bb is not None and bb not in seen:
        seen.add(bb)
        t = wb.blocks[bb]['term']
        if t['t'] == 'call':
            d = strip_generics(t['f'].get('def') or '')
            if d.startswith('speedy::Writer::'):
                op = d.rsplit('::', 1)[-1]
                try:
                    c = S.contribution(wb, og, bb, t, {1: ('param', 1)})
                except Unsupported:
                    c = None
                a = t['args'][1] if len(t['args']) > 1 else None
                wty, what = None, None
                if a is not None and a.get('o') == 'const':
                    what = a['k'].get('v')
                    wty = a['k'].get('ty')
                elif a is not None:
                    wty = wb.locals[a['pl']['l']].replace('&', '').replace("'_ ", '').strip()
                    tm = og.of_operand(a, bb, 'term')
                    if tm[0] == 'field' and tm[2] == ('param', 1):
                        what = tm[1]
                if op.startswith('write_') and op[6:] in ('u8', 'u16', 'u32', 'u64', 'i8', 'i16', 'i32', 'i64'):
                    wty = op[6:]
                seq.append((op, wty, what, c))
            bb = t.get('target')
            continue
        if t['t'] == 'switch':
            cont = [a[1] for a in t['arms'] if a[0] == 0]
            st_discr = [st for st in wb.blocks[bb]['st'] if st['s'] == 'assign' and st['rv']['r'] == 'discr']
            if not (st_discr and 'ControlFlow' in (st_discr[-1]['rv'].get('ty') or '')) or not cont:
                break
            bb = cont[0]
            continue
        if t['t'] in ('goto', 'drop', 'assert'):
            bb = t['target']
            continue
        break
    return seq


def rule_14_8(rep, fx):
    """The cursor parsers of DATA / DATAFRAG mirror the writers: same typed fields in the same order into the same struct fields, same header-size constant."""
    from rdv.sizes import Sizes
    from rdv.core import Origins, callee_res, strip_generics, term_leaves, switch_edges
    rep.rule('R14.8', 'DATA / DATAFRAG parser mirrors the writer: the typed reads before the inline QoS are the writer\'s fixed fields in the same order, each parsed value lands in the struct '
                      'field the writer took it from, the parser\'s fixed-header constant equals the octetsToInlineQos literal the writer emits, and the inline QoS is read as a ParameterList')
    S = Sizes(fx)
    for ty, pname in (('messages::submessages::data::Data', 'deserialize_data'), ('messages::submessages::data_frag::DataFrag', 'deserialize')):
        short = ty.rsplit('::', 1)[-1]
        wb = S.writable_body(ty)
        pb = fx.find('%s::%s' % (ty, pname))
        rep.analysed(wb, pb)
        wseq = writer_prefix(S, wb)
        fixed = []
        for op, wty, what, c in wseq:
            if c is None or any(m != () for m in c):
                break
            fixed.append((strip_generics(wty or '?'), what))
        og = Origins(pb)
        reads = [(bb, strip_generics(t['f'].get('self_ty') or '?')) for bb, t in pb.calls() if 'read_from_stream' in callee_res(t)]
        # execution order: each read dominates the later ones
        reads.sort(key=lambda r: sum(1 for o in reads if pb.dominates(o[0], r[0])))
        rtypes = [r[1] for r in reads]
        ok_seq = len(fixed) >= 5 and rtypes[:len(fixed)] == [f[0] for f in fixed] and rtypes[len(fixed):] == ['messages::submessages::elements::parameter_list::ParameterList']
        rep.check(ok_seq, 'R14.8', '%s/read-sequence' % short, '%d typed reads = the writer\'s fixed fields, then ParameterList' % len(fixed),
                  '%s::%s reads %s but %s::write_to writes %s: the parser and the writer disagree on the layout' % (
                      short, pname, [x.rsplit('::', 1)[-1] for x in rtypes], short, [f[0].rsplit('::', 1)[-1] for f in fixed]), pb.where())
        # field mapping
        bad = []
        for bb, si, st in pb.statements():
            if st['s'] == 'assign' and st['rv']['r'] == 'agg' and strip_generics(str(st['rv'].get('adt'))) == ty:
                for f, o in zip(st['rv']['fields'], st['rv']['ops']):
                    tm = og.of_operand(o, bb, si)
                    src = [x[3] for x in term_leaves(tm) if x[0] == 'call' and 'read_from_stream' in x[1]]
                    idx = [i for i, r in enumerate(reads) if src and r[0] == src[0]]
                    if f in ('inline_qos', 'serialized_payload'):
                        continue
                    if len(src) != 1 or not idx or idx[0] >= len(fixed) or fixed[idx[0]][1] != f:
                        bad.append('%s <- read #%s (writer writes %s there)' % (f, idx[0] + 1 if idx else '?', fixed[idx[0]][1] if idx and idx[0] < len(fixed) else '?'))
        rep.check(not bad, 'R14.8', '%s/field-mapping' % short, 'each parsed value goes to the field the writer serialised at that position',
                  '%s::%s puts parsed values into other fields than the writer took them from: %s' % (short, pname, '; '.join(bad[:3])), pb.where())
        # header-size constant: the comparison octets_to_inline_qos < K in the parser
        lit = wseq[1][2] if len(wseq) > 1 else None
        ks = set()
        for s_, t_, cond, lab in switch_edges(pb, fx, og):
            if cond[0] == 'bin' and cond[1] in ('Lt', 'Gt', 'Le', 'Ge') and cond[3][0] == 'const' and cond[3][1] == 'int' and \
                    any(x[0] == 'call' and 'read_from_stream' in x[1] and x[3] == reads[1][0] for x in term_leaves(cond[2])):
                ks.add(int(cond[3][2]))
        rep.check(ks == {lit} and lit is not None, 'R14.8', '%s/header-constant' % short, 'parser constant %s = writer literal %s' % (sorted(ks), lit),
                  '%s::%s compares octetsToInlineQos with %s but the writer emits %s' % (short, pname, sorted(ks), lit), pb.where())


def rule_14_9(rep, fx):
    """RTPS 2.5 9.4.5.1.3: octetsToNextHeader == 0 means "extends to the end of the message", except for PAD and INFO_TS, where it means an empty submessage."""
    from rdv.core import Origins, Pos, switch_edges, term_has
    rep.rule('R14.9', 'zero-length rule of the parser: when octetsToNextHeader is 0, Submessage::read_from_buffer takes the content as empty exactly for PAD and INFO_TS and as "the rest of '
                      'the message" for every other kind; an INFO_TS with the Invalidate flag (which the builder emits with length 0) therefore does not swallow the submessages after it')
    b = fx.find('rtps::submessage::Submessage::read_from_buffer')
    rep.analysed(b)
    og = Origins(b)
    P = Pos(b)
    edges = list(switch_edges(b, fx, og))
    zero = [(s_, t_) for s_, t_, cond, lab in edges if lab is True and cond[0] == 'bin' and cond[1] == 'Eq' and cond[3] == ('const', 'int', 0) and
            term_has(cond[2], lambda x: x[0] == 'field' and x[1] == 'content_length')]
    consts = {c['path'].rsplit('::', 1)[-1]: c.get('val') for c in fx.doc['consts'] if 'submessage_kind::SubmessageKind::' in c['path']}
    want = {consts.get('PAD'), consts.get('INFO_TS')}
    empties = set()
    rest = False
    n_sw = 0
    for s_, t_, cond, lab in edges:
        if not (term_has(cond, lambda x: x[0] == 'field' and x[1] == 'kind') and zero and P.every_path_passes(None, (s_, 'term'), via_edges=zero, from_entry=True)):
            continue
        n_sw += 1
        assigns_zero = any(st['s'] == 'assign' and st['rv']['r'] == 'use' and st['rv']['x'].get('o') == 'const' and st['rv']['x']['k'].get('v') == 0 and 'usize' in (b.locals[st['lhs']['l']] or '')
                           for st in b.blocks[t_]['st'])
        if isinstance(lab, int) and assigns_zero:
            empties.add(lab)
        if isinstance(lab, tuple) and lab[0] == 'not' and not assigns_zero:
            rest = True
        if isinstance(lab, tuple) and lab[0] == 'not' and assigns_zero:
            empties.add('every other kind')
    ok = None not in want and empties == want and rest and n_sw > 0
    names = sorted(k for k, v in consts.items() if v in empties) + [e for e in empties if isinstance(e, str)]
    rep.check(ok, 'R14.9', 'read_from_buffer/zero-length-kinds', 'empty for PAD and INFO_TS, rest of the message otherwise',
              'with octetsToNextHeader = 0 the parser treats as empty: %s (RTPS 9.4.5.1.3 says exactly PAD and INFO_TS): a zero-length INFO_TS or PAD in the middle of a message '
              'swallows every submessage after it, or a last submessage longer than 64 KiB is cut to nothing' % (names or 'nothing'), b.where())


FLAGMOD = 'messages::submessages::submessage_flag::'


def _is_eflag_of(t, pred):
    """t = endianness_flag(X) with pred(X)"""
    while t[0] in ('ref', 'deref') and isinstance(t[1], tuple):
        t = t[1]
    return t[0] == 'call' and t[1].endswith('submessage_flag::endianness_flag') and pred(t[2][0])


def rule_14_12(rep, fx):
    """The byte order of every multi-byte field of a submessage is the one its own header's E flag announces, on the writing and on the parsing side; the
    ambient serialisation context of the enclosing message must not leak into a submessage body."""
    rep.rule('R14.12', 'byte order follows the E flag: Submessage::write_to serialises the body under endianness_flag(own header.flags) (never under the caller\'s context); '
                       'Submessage::read_from_buffer and the DATA/DATAFRAG cursor parsers read every element under endianness_flag(flags of the header just read); endianness_flag '
                       'tests bit 0x01, which is the discriminant of the Endianness variant of every *_Flags enum, and from_endianness sets exactly that flag for LittleEndian; in the '
                       'MessageBuilder every separately serialised element of a submessage uses the endianness its flags were built from')
    # (a) writer
    wb = [b for b in fx.bodies if b.name == 'write_to' and strip_generics(b.impl_self or '') == 'rtps::submessage::Submessage']
    if len(wb) != 1:
        raise CheckBroken('Submessage::write_to not found (%d)' % len(wb))
    wb = wb[0]
    rep.analysed(wb)
    og = Origins(wb, summaries=False)
    ctx_calls = [(bb, t) for bb, t in wb.calls() if callee_res(t).endswith('write_to_vec_with_ctx')]
    ok = len(ctx_calls) == 1
    if ok:
        bb, t = ctx_calls[0]
        subj = og.of_operand(t['args'][0], bb, 'term')
        ctx = og.of_operand(t['args'][1], bb, 'term')
        ok = has_field(subj, 'body') and _is_eflag_of(ctx, lambda x: has_field(x, 'flags') and has_field(x, 'header') and term_has(x, lambda z: z == ('param', 1)))
    rep.check(ok, 'R14.12', 'Submessage::write_to/body-ctx', 'body.write_to_vec_with_ctx(endianness_flag(self.header.flags))',
              'Submessage::write_to does not serialise the body under the byte order of its own header flag: a submessage whose E flag differs from the context the message is '
              'written with announces one byte order and carries the other', wb.where())
    leaks = [(bb, t) for bb, t in wb.calls() if callee_res(t).rsplit('::', 1)[-1] in ('write_value', 'write_to') and
             any(has_field(og.of_operand(a, bb, 'term'), 'body') for a in t['args'][1:])]
    rep.check(not leaks, 'R14.12', 'Submessage::write_to/no-context-leak', 'the body is never written with the ambient context',
              'Submessage::write_to writes the body with the writer\'s ambient context (write_value): its byte order then depends on how the enclosing message is serialised, '
              'not on the E flag in its header', wb.where(leaks[0][0]) if leaks else '')
    # (b) submessage parser
    rb = fx.find('rtps::submessage::Submessage::read_from_buffer')
    rep.analysed(rb)
    ogr = Origins(rb, summaries=False)
    hdr_flags = lambda x: has_field(x, 'flags') and term_has(x, lambda z: z[0] == 'call' and z[1].endswith('read_from_buffer'))
    n = 0
    for bb, t in rb.calls():
        cr = callee_res(t)
        if cr.endswith(('read_from_buffer_with_ctx', 'read_from_stream_unbuffered_with_ctx', 'read_with_length_from_buffer_with_ctx')):
            n += 1
            ctx = ogr.of_operand(t['args'][0], bb, 'term')
            okc = _is_eflag_of(ctx, hdr_flags)
            rep.check(okc, 'R14.12', 'Submessage::read_from_buffer/%s' % strip_generics(t['f'].get('self_ty') or '?').rsplit('::', 1)[-1], 'parsed under endianness_flag(sub_header.flags)',
                      'Submessage::read_from_buffer parses %s under a byte order that is not the one of the submessage header just read (%s)'
                      % (t['f'].get('self_ty'), term_str(ctx)[:80]), rb.where(bb))
        elif cr.endswith(('::read_from_buffer', '::read_from_stream_unbuffered')) and strip_generics(t['f'].get('self_ty') or '').startswith('messages::submessages::') and \
                not strip_generics(t['f'].get('self_ty') or '').endswith('SubmessageHeader'):
            n += 1
            rep.violation('R14.12', 'Submessage::read_from_buffer/%s/no-ctx' % strip_generics(t['f'].get('self_ty') or '?').rsplit('::', 1)[-1],
                          'Submessage::read_from_buffer parses %s with the default context instead of the byte order of the submessage header' % t['f'].get('self_ty'), rb.where(bb))
        elif cr.endswith(('Data::deserialize_data', 'DataFrag::deserialize')):
            n += 1
            fl = ogr.of_operand(t['args'][1], bb, 'term')
            rep.check(hdr_flags(fl), 'R14.12', 'Submessage::read_from_buffer/%s' % cr.rsplit('::', 2)[-2], 'gets the flags of the header just read',
                      '%s is not given the flags of the submessage header just read' % cr, rb.where(bb))
    rep.floor('R14.12', n, 11, 'body parsers called by Submessage::read_from_buffer')
    # (c) cursor parsers
    for nm in ('messages::submessages::data::Data::deserialize_data', 'messages::submessages::data_frag::DataFrag::deserialize'):
        b = fx.find(nm)
        rep.analysed(b)
        ogb = Origins(b, summaries=False)
        m = 0
        bad = []
        for bb, t in b.calls():
            if callee_res(t).endswith(('_with_ctx',)):
                m += 1
                ctx = ogb.of_operand(t['args'][0], bb, 'term')
                if not _is_eflag_of(ctx, lambda x: term_has(x, lambda z: z == ('param', 2))):
                    bad.append(term_str(ctx)[:60])
            elif callee_res(t).endswith(('::read_from_buffer', '::read_from_stream_unbuffered', '::read_from_stream_buffered')):
                bad.append(callee_res(t))
        rep.check(m >= 5 and not bad, 'R14.12', '%s/ctx' % nm.rsplit('::', 2)[-2], '%d reads, all under endianness_flag(flags)' % m,
                  '%s reads an element under a byte order not derived from its flags argument: %s' % (nm.rsplit('::', 2)[-2] + '::' + nm.rsplit('::', 1)[-1], bad[:3]), b.where())
    # (d) the flag bit
    ef = fx.find(FLAGMOD + 'endianness_flag')
    rep.analysed(ef)
    oge = Origins(ef, summaries=False)
    okd = False
    for s_, t_, cond, lab in switch_edges(ef, fx, oge):
        # Eq(BitAnd(flags, 1), 0): true -> BigEndian
        if cond[0] == 'bin' and cond[1] == 'Eq':
            sides = [cond[2], cond[3]]
            band = [x for x in sides if x[0] == 'bin' and x[1] == 'BitAnd']
            zero = [x for x in sides if x[0] == 'const' and str(x[2]) in ('0', '0u8')]
            if band and zero and ('param', 1) in (band[0][2], band[0][3]) and any(x[0] == 'const' and str(x[2]).rstrip('u8') == '1' for x in (band[0][2], band[0][3])):
                res = [st['rv'].get('variant') for st in ef.blocks[t_]['st'] if st['s'] == 'assign' and st['lhs']['l'] == 0 and st['rv']['r'] == 'agg']
                if (lab is True and res == ['BigEndian']) or (lab is False and res == ['LittleEndian']):
                    okd = True
                else:
                    okd = False
                    break
    rep.check(okd, 'R14.12', 'endianness_flag/bit0', '(flags & 1) == 0 => BigEndian, else LittleEndian', 'endianness_flag no longer maps bit 0x01 set to LittleEndian and clear to BigEndian', ef.where())
    nflag = 0
    for path, a in fx.adts.items():
        if path.startswith(FLAGMOD) and path.endswith('_Flags') and a.get('kind') == 'enum':
            names = [v['name'] for v in a['variants']]
            if 'Endianness' in names:
                nflag += 1
                d = (a.get('discrs') or [])[names.index('Endianness')]
                rep.check(d == 1, 'R14.12', '%s/Endianness=0x01' % path.rsplit('::', 1)[-1], 'discriminant 0x01', '%s::Endianness has the bit value %s, endianness_flag tests 0x01' % (path, d), '')
    rep.floor('R14.12', nflag, 12, '*_Flags enums with an Endianness variant')
    nfe = 0
    for b in fx.bodies:
        if b.name == 'from_endianness' and b.kind in ('fn', 'assoc_fn'):
            nfe += 1
            ogf = Origins(b, summaries=False)
            okf = False
            for s_, t_, cond, lab in switch_edges(b, fx, ogf):
                if cond[0] == 'call' and cond[1].endswith('::eq') and term_has(cond, lambda z: z == ('param', 1)) and lab is True:
                    little = term_has(cond, lambda z: z[0] in ('agg', 'const') and 'LittleEndian' in str(z))
                    sets = [st['rv'].get('variant') for st in b.blocks[t_]['st'] if st['s'] == 'assign' and st['rv']['r'] == 'agg']
                    okf = little and sets == ['Endianness']
            rep.check(okf, 'R14.12', 'from_endianness/%s' % (b.impl_self or '?').rstrip('>').rsplit('::', 1)[-1], 'LittleEndian => {Endianness}, else empty',
                      '%s does not set exactly the Endianness flag for LittleEndian' % b.key, b.where())
    rep.floor('R14.12', nfe, 12, 'from_endianness implementations')
    # (e) builders: separately serialised elements use the endianness the flags are built from
    nb = 0
    for b in fx.bodies:
        if not b.key.startswith('rtps::message::MessageBuilder::') or b.kind not in ('fn', 'assoc_fn'):
            continue
        ogb = Origins(b, summaries=False)
        fl = [ogb.of_operand(t['args'][0], bb, 'term') for bb, t in b.calls() if callee_res(t).endswith('from_endianness')]
        cx = [(bb, ogb.of_operand(t['args'][1], bb, 'term')) for bb, t in b.calls() if callee_res(t).endswith('write_to_vec_with_ctx')]
        for c in fx.closures_of(b):
            ogc = Origins(c, summaries=False)
            from rdv.core import resolve_captures
            cx += [(None, resolve_captures(fx, c, ogc.of_operand(t['args'][1], bb, 'term'), summaries=False)) for bb, t in c.calls() if callee_res(t).endswith('write_to_vec_with_ctx')]
        if not cx:
            continue
        rep.analysed(b)
        for bb, c in cx:
            nb += 1
            okb = bool(fl) and all(c == f for f in fl)
            rep.check(okb, 'R14.12', 'MessageBuilder::%s/element-ctx#%d' % (b.name, nb), 'element serialised under the endianness the flags are built from',
                      'MessageBuilder::%s serialises an element of the submessage under %s while its flags are built from %s' % (b.name, term_str(c)[:60], [term_str(f)[:40] for f in fl][:2]),
                      b.where(bb) if bb is not None else b.where())
    rep.floor('R14.12', nb, 2, 'separately serialised submessage elements in MessageBuilder')


def rule_14_13(rep, fx, pre=''):
    """What the builder is asked to add is in the message, and what the message contains is parsed (mutation triage: deleted pushes in the MessageBuilder and in
    Message::read_from_buffer, an inverted Invalidate flag and an inverted loop condition all survived)."""
    from rdv.core import natural_loops, primary_edges
    if not pre:
        rep.rule('R14.13', 'builder appends, parser takes all: every Submessage a MessageBuilder method constructs is pushed onto self.submessages on every path from the construction to '
                           'the return; ts_msg sets the Invalidate flag exactly for timestamp = None and announces 8 content bytes for Some, 0 for None; every dispose data_msg '
                           'announces carries status info with disposed = true; Message::read_from_buffer leaves its parsing loop only when the buffer is used up and pushes every '
                           'Some(submessage) it parsed before parsing the next')
    n = 0
    for b in fx.bodies:
        if not b.key.startswith('rtps::message::MessageBuilder::') or b.kind not in ('fn', 'assoc_fn'):
            continue
        aggs = [(bb, si) for bb, si, st in b.statements() if st['s'] == 'assign' and st['rv']['r'] == 'agg' and strip_generics(st['rv'].get('adt', '')).endswith('rtps::submessage::Submessage')]
        if not aggs:
            continue
        rep.analysed(b)
        og = Origins(b, summaries=False)
        P = Pos(b)
        pushes = []
        for bb, t in b.calls():
            if callee_res(t).endswith('::push') and has_field(og.of_operand(t['args'][0], bb, 'term'), 'submessages'):
                v = og.of_operand(t['args'][1], bb, 'term')
                if term_has(v, lambda x: x[0] == 'agg' and strip_generics(str(x[1])).endswith('rtps::submessage::Submessage')) or \
                        term_has(v, lambda x: x[0] == 'call' and x[1].endswith('create_submessage')):
                    pushes.append((bb, 'term'))
        for bb, si in aggs:
            n += 1
            ok = bool(pushes) and not any(P.can_reach((bb, si), (r, 'term'), avoid_pos=pushes) for r in b.return_blocks())
            rep.check(ok, 'R14.13', '%sMessageBuilder::%s/appends#%d' % (pre, b.name, n), 'constructed => pushed onto self.submessages on every path',
                      'MessageBuilder::%s builds a submessage that is not appended to the message on every path: the caller\'s INFO_DST / INFO_TS / DATA / GAP ... silently never goes '
                      'on the wire' % b.name, b.where(bb, si))
    # builders that go through Xxx::create_submessage(flags)
    for b in fx.bodies:
        if not b.key.startswith('rtps::message::MessageBuilder::') or b.kind not in ('fn', 'assoc_fn'):
            continue
        og = None
        for bb, t in b.calls():
            if callee_res(t).endswith('create_submessage'):
                og = og or Origins(b, summaries=False)
                P = Pos(b)
                n += 1
                # create_submessage answers Option<Submessage> (None: the body could not be serialised): the Some goes onto the list, by match or by map(|s| push(s))
                pushes = [(pb, 'term') for pb, pt in b.calls() if callee_res(pt).endswith('::push') and has_field(og.of_operand(pt['args'][0], pb, 'term'), 'submessages') and
                          term_has(og.of_operand(pt['args'][1], pb, 'term'), lambda x: x[0] == 'call' and x[1].endswith('create_submessage') and len(x) > 3 and x[3] == bb)]
                some = [(s_, t_) for s_, t_, cond, lab in switch_edges(b, fx, og) if lab == 'Some' and cond[0] == 'discr' and cond[1][0] == 'call' and len(cond[1]) > 3 and cond[1][3] == bb]
                ok = bool(pushes) and bool(some) and not any(P.can_reach((t_, 0), (r, 'term'), avoid_pos=pushes) for s_, t_ in some for r in b.return_blocks())
                if not ok:
                    for mb, mt in b.calls():
                        if callee_res(mt).endswith('Option::<T>::map') and term_has(og.of_operand(mt['args'][0], mb, 'term'), lambda x: x[0] == 'call' and len(x) > 3 and x[3] == bb and x[1].endswith('create_submessage')):
                            for c in fx.closures_of(b):
                                if c.key not in str(og.of_operand(mt['args'][1], mb, 'term')):
                                    continue
                                ogc = Origins(c, summaries=False)
                                cp = [(pb, 'term') for pb, pt in c.calls() if callee_res(pt).endswith('::push') and ogc.of_operand(pt['args'][1], pb, 'term') == ('param', 2) and
                                      'submessages' in str(ogc.of_operand(pt['args'][0], pb, 'term'))]
                                if cp and all(Pos(c).every_path_passes(None, (r, 'term'), via_pos=cp, from_entry=True) for r in c.return_blocks()) and \
                                        not any(P.can_reach((bb, 'term'), (r, 'term'), avoid_pos=[(mb, 'term')]) for r in b.return_blocks()):
                                    ok = True
                rep.check(ok, 'R14.13', '%sMessageBuilder::%s/appends#%d' % (pre, b.name, n), 'create_submessage(..) => pushed onto self.submessages on every path',
                          'MessageBuilder::%s creates a submessage that is not appended to the message on every path' % b.name, b.where(bb))
    rep.floor('R14.13', n, 7, 'submessages constructed by MessageBuilder methods (%s)' % (pre or 'default'))
    # ts_msg
    ts = fx.find('rtps::message::MessageBuilder::ts_msg')
    og = Origins(ts, summaries=False)
    P = Pos(ts)
    edges = list(switch_edges(ts, fx, og))
    none_e = [(s_, t_) for s_, t_, cond, lab in edges if (cond[0] == 'call' and cond[1].endswith('is_none') and lab is True and term_has(cond, lambda x: x == ('param', 3))) or
              (cond[0] == 'call' and cond[1].endswith('is_some') and lab is False and term_has(cond, lambda x: x == ('param', 3)))]
    some_e = [(s_, t_) for s_, t_, cond, lab in edges if (cond[0] == 'call' and cond[1].endswith('is_none') and lab is False and term_has(cond, lambda x: x == ('param', 3))) or
              (cond[0] == 'call' and cond[1].endswith('is_some') and lab is True and term_has(cond, lambda x: x == ('param', 3)))]
    none_e += [(s_, t_) for s_, t_, cond, lab in primary_edges(ts, edges) if cond[0] == 'discr' and cond[1] == ('param', 3) and lab == 'None' and False]
    inv = [(bb, 'term') for bb, t in ts.calls() if callee_res(t).rsplit('::', 1)[-1] in ('bitor_assign', 'insert', 'bitor') and
           any(term_has(og.of_operand(a, bb, 'term'), lambda x: x[0] == 'agg' and str(x[1]).endswith('INFOTIMESTAMP_Flags::Invalidate')) for a in t['args'])]
    hdr = [(bb, si) for bb, si, st in ts.statements() if st['s'] == 'assign' and st['rv']['r'] == 'agg' and strip_generics(st['rv'].get('adt', '')).endswith('SubmessageHeader')]
    ok = bool(none_e) and bool(some_e) and len(inv) == 1 and bool(hdr)
    if ok:
        ok = P.every_path_passes(None, inv[0], via_edges=none_e, from_entry=True) and not any(P.can_reach((t_, 0), h, avoid_pos=inv) for s_, t_ in none_e for h in hdr) and \
            not any(P.can_reach((t_, 0), inv[0]) for s_, t_ in some_e)
    rep.check(ok, 'R14.13', '%sts_msg/invalidate-iff-none' % pre, 'Invalidate flag <=> timestamp is None',
              'ts_msg does not set the Invalidate flag exactly when there is no timestamp: a receiver skips the timestamp that is there (source timestamps are lost) or reads one '
              'that is not', ts.where())
    lens = {}
    for s_, t_, cond, lab in primary_edges(ts, edges):
        if cond[0] == 'discr' and cond[1] == ('param', 3) and lab in ('Some', 'None'):
            for bb in [t_]:
                for st in ts.blocks[bb]['st']:
                    if st['s'] == 'assign' and st['rv']['r'] == 'use' and st['rv']['x'].get('o') == 'const' and st['rv']['x']['k'].get('c') == 'int':
                        lens[lab] = int(st['rv']['x']['k']['v'])
    rep.check(lens == {'Some': 8, 'None': 0}, 'R14.13', '%sts_msg/content-length' % pre, 'content_length 8 with a timestamp, 0 without',
              'ts_msg announces content lengths %s for (Some, None); the timestamp is 8 bytes and absent under Invalidate' % lens, ts.where())
    # dispose status info
    dm = fx.find('rtps::message::MessageBuilder::data_msg')
    og = Origins(dm, summaries=False)
    st_calls = [(bb, t) for bb, t in dm.calls() if callee_res(t).endswith('create_pid_status_info_parameter')]
    okd = len(st_calls) >= 2 and all(og.of_operand(t['args'][0], bb, 'term') in (('const', 'int', 1), ('const', 'bool', True), ('const', 'bool', 'true')) for bb, t in st_calls)
    rep.check(okd, 'R14.13', '%sdata_msg/dispose-status' % pre, '%d status-info parameters, all with disposed = true' % len(st_calls),
              'data_msg announces a dispose with status info whose disposed flag is not set: the reader takes it for an unregistration (or an update)', dm.where())
    # the parser takes all
    rb = fx.find('rtps::message::Message::read_from_buffer')
    rep.analysed(rb)
    og = Origins(rb, summaries=False)
    P = Pos(rb)
    edges = list(switch_edges(rb, fx, og))
    reads = [(bb, t) for bb, t in rb.calls() if callee_res(t).endswith('Submessage::read_from_buffer')]
    pushes = [(bb, 'term') for bb, t in rb.calls() if callee_res(t).endswith('::push') and has_field(og.of_operand(t['args'][0], bb, 'term'), 'submessages')]
    okp = len(reads) == 1 and bool(pushes)
    why = 'shape'
    if okp:
        rbb = reads[0][0]
        lp = [l for l in natural_loops(rb) if rbb in l[1]]
        some = [(s_, t_) for s_, t_, cond, lab in edges if lab == 'Some' and cond[0] == 'discr' and term_has(cond, lambda x: x[0] == 'call' and len(x) > 3 and x[3] == rbb)]
        if not lp or not some or any(P.can_reach((t_, 0), (rbb, 'term'), avoid_pos=pushes) for s_, t_ in some):
            okp = False
            why = 'a parsed submessage is not kept'
        else:
            blocks = lp[0][1]
            for s_, t_, cond, lab in edges:
                if s_ in blocks and t_ not in blocks and isinstance(lab, bool):
                    neg, c = False, cond
                    while c[0] == 'un' and c[1] == 'Not':
                        neg, c = not neg, c[2]
                    while c[0] == 'bin' and c[1] in ('Eq', 'Ne') and any(x[0] == 'const' for x in c[2:4]):
                        k = [x for x in c[2:4] if x[0] == 'const'][0]
                        other = [x for x in c[2:4] if x is not k][0]
                        if (c[1] == 'Eq') != (str(k[2]) in ('1', 'true', 'True')):
                            neg = not neg
                        c = other
                        while c[0] == 'un' and c[1] == 'Not':
                            neg, c = not neg, c[2]
                    if not (c[0] == 'call' and c[1].endswith('is_empty') and lab != neg):
                        okp = False
                        why = 'the loop is left while bytes remain'
    rep.check(okp, 'R14.13', '%sMessage::read_from_buffer/takes-all' % pre, 'loop until the buffer is empty; every Some(submessage) pushed',
              'Message::read_from_buffer does not parse and keep every submessage of the datagram (%s)' % why, rb.where())
