"""C16  Protected traffic decodes only for its intended receiver and only if untouched.

Cryptographic correctness is delegated to `ring`; decided here is that the code cannot
release data without asking it (must-pass-through + result-use rules on the security MIR).
"""
from rdv.core import (CheckBroken, Origins, Pos, call_matches, callee_res, infeasible_edges, norm_path, resolve_captures, strip_generics, switch_edges,
                      term_has, term_leaves, term_str)

CONFIGS = ['security']
LEVEL = 'other'

CT = 'security::cryptographic::cryptographic_builtin::crypto_transform::'
VERIFIERS = ('aes_gcm_gmac::validate_mac', 'aes_gcm_gmac::decrypt')
AUTH_KINDS = ('CRYPTO_TRANSFORMATION_KIND_AES128_GMAC', 'CRYPTO_TRANSFORMATION_KIND_AES256_GMAC',
              'CRYPTO_TRANSFORMATION_KIND_AES128_GCM', 'CRYPTO_TRANSFORMATION_KIND_AES256_GCM')
NONE_KIND = 'CRYPTO_TRANSFORMATION_KIND_NONE'


def has_call(t, suffix):
    return term_has(t, lambda x: x[0] == 'call' and x[1].endswith(suffix))


def is_verifier_call_term(t):
    return t[0] == 'call' and any(t[1].endswith(v) for v in VERIFIERS)


def find_decode(fx, name):
    bs = [b for b in fx.bodies if b.name == name and b.key.startswith(CT) and b.kind in ('fn', 'assoc_fn')]
    if len(bs) != 1:
        bs = [b for b in fx.bodies if b.name == name and 'crypto_transform' in b.key and b.kind in ('fn', 'assoc_fn')]
    if len(bs) != 1:
        raise CheckBroken('decode function %s not found uniquely in crypto_transform (%d)' % (name, len(bs)))
    return bs[0]


def verified_edges(b, fx, og):
    """Edges/blocks that certify a successful verification on the path:
       - the Continue edge of `?` applied to a verifier's result
       - the Ok edge of a match on a verifier's result."""
    out = []
    for sbb, tg, cond, lab in switch_edges(b, fx, og):
        if lab in ('Continue', 'Ok') and cond[0] == 'discr':
            base = cond[1]
            if is_verifier_call_term(base) or (base[0] == 'call' and base[1].endswith('Try::branch') and is_verifier_call_term(base[2][0])):
                out.append((sbb, tg))
    return out


def verified_defs(b, og):
    """Call terminators that define a Result whose Ok-ness is the verifier's: Result::map / and_then / map_err applied to a verifier's result."""
    out = []
    for bb, t in b.calls():
        r = callee_res(t)
        if r.endswith('Result::<T, E>::map') or r.endswith('Result::<T, E>::and_then'):
            a0 = og.of_operand(t['args'][0], bb, 'term')
            if is_verifier_call_term(a0):
                out.append((bb, 'term'))
        if any(r.endswith(v) for v in VERIFIERS) and t['dest']['l'] == 0 and not t['dest'].get('p'):
            out.append((bb, 'term'))   # the verifier's own result is returned
    return out


def run(rep, facts, tier):
    fx = facts['security']
    rep.explanation = ('In the three decode functions of the builtin crypto plugin every path to a success value in a GMAC/GCM arm passes the Ok '
                       'continuation of validate_mac / decrypt; verification results are never dropped; the receiver-specific MAC predicate is true '
                       'only without a receiver-specific key or on a verified MAC, and its callers gate success on it; header key id / kind are compared '
                       'with the key material.')
    rep.assume('AES-GCM/GMAC (ring) reject altered bytes, IVs, MACs and wrong keys', 'key derivation values are not decided')
    rep.rule('R16.1', 'verify before release: every success of decode_rtps_message / decode_submessage / decode_serialized_payload in an authenticated '
                      'transformation kind passes the Ok continuation of validate_mac or decrypt; NONE is the only arm without')
    rep.rule('R16.2', 'no verification result is discarded: the result of every call of validate_mac / decrypt / validate_receiver_specific_mac / '
                      'verify_signature is consumed by ?, a match, map/and_then/map_or_else, a branch or a return')
    rep.rule('R16.3', 'validate_receiver_specific_mac is true only on the no-receiver-key path or on the verified-MAC continuation; callers gate success on it')
    rep.rule('R16.4', 'the header transformation kind (and key id at message level) is compared with the key material and a mismatch cannot reach success; '
                      'encode and decode handle the same set of transformation kinds')

    # ------------------------------------------------------------ R16.1
    for name in ('decode_rtps_message', 'decode_submessage', 'decode_serialized_payload'):
        b = find_decode(fx, name)
        rep.analysed(b)
        og = Origins(b, summaries=True)
        P = Pos(b)
        edges = list(switch_edges(b, fx, og))
        kind_edges = {}
        for sbb, tg, cond, lab in edges:
            if isinstance(lab, str) and lab.startswith('CRYPTO_TRANSFORMATION_KIND'):
                kind_edges.setdefault(lab, []).append((sbb, tg))
        missing = [k for k in AUTH_KINDS + (NONE_KIND,) if k not in kind_edges]
        rep.check(not missing, 'R16.1', '%s/kinds' % name, 'dispatches on all five transformation kinds', '%s does not dispatch on %s' % (name, missing), b.where())
        cert = verified_edges(b, fx, og) + infeasible_edges(b, fx, og, edges)
        vdefs = verified_defs(b, og)
        # success sites
        sites = []
        if name == 'decode_serialized_payload':
            # every definition of the return value must be Err, a `?` residual, the verifier's own result or map(verifier)
            for bb, si, st in b.statements():
                if st['s'] == 'assign' and st['lhs']['l'] == 0 and not st['lhs'].get('p'):
                    rv = st['rv']
                    if rv['r'] == 'agg' and rv.get('variant') == 'Err':
                        continue
                    sites.append((bb, si, 'assign'))
            for bb, t in b.calls():
                if t['dest']['l'] == 0 and not t['dest'].get('p'):
                    r = callee_res(t)
                    if r.endswith('from_residual'):
                        continue
                    sites.append((bb, 'term', r))
        else:
            for bb, si, st in b.statements():
                if st['s'] == 'assign' and st['rv']['r'] == 'agg' and st['rv'].get('variant') == 'Success' and 'DecodeOutcome' in st['rv'].get('adt', ''):
                    sites.append((bb, si, 'Success'))
            # Success built in a closure applied by and_then/map: the application is the site
            for c in fx.closures_of(b):
                if any(st['s'] == 'assign' and st['rv']['r'] == 'agg' and st['rv'].get('variant') == 'Success' for _bb, _si, st in c.statements()):
                    for bb, t in b.calls():
                        for a in t['args'][1:]:
                            if a.get('o') in ('move', 'copy'):
                                ta = og.of_operand(a, bb, 'term')
                                if ta[0] == 'agg' and ta[1] == c.key:
                                    # Result::and_then / map: the closure runs only on an Ok receiver. The success sites are the
                                    # definitions of the receiver that can be Ok.
                                    r0 = t['args'][0]
                                    if not callee_res(t).endswith(('Result::<T, E>::and_then', 'Result::<T, E>::map')) or r0.get('o') not in ('move', 'copy') or r0['pl'].get('p'):
                                        sites.append((bb, 'term', 'closure-success'))
                                        continue
                                    L = r0['pl']['l']
                                    for dbb, dsi, partial in og.defsites().get(L, []):
                                        if partial or dbb not in b.live_blocks():
                                            continue
                                        if dsi == 'term':
                                            sites.append((dbb, 'term', callee_res(b.blocks[dbb]['term'])))
                                        else:
                                            st = b.blocks[dbb]['st'][dsi]
                                            if st['rv']['r'] == 'agg' and st['rv'].get('variant') == 'Err':
                                                continue
                                            sites.append((dbb, dsi, 'assign'))
        if not sites:
            raise CheckBroken('%s: no success site found' % name)
        none_e = kind_edges.get(NONE_KIND, [])
        for k, site in enumerate(sites):
            pos = (site[0], site[1])
            if site[2] not in ('Success', 'closure-success', 'assign') and (pos in vdefs):
                rep.ok('R16.1', '%s/success#%d' % (name, k), 'return value is the verifier result (or map of it)', b.where(site[0]))
                continue
            ok = P.every_path_passes(None, pos, via_edges=cert + none_e, via_pos=[v for v in vdefs if v != pos], from_entry=True)
            rep.check(ok, 'R16.1', '%s/success#%d' % (name, k), 'every path passes validate_mac/decrypt Ok (or the NONE arm)',
                      '%s can produce a success value in an authenticated transformation kind without the Ok continuation of validate_mac/decrypt' % name,
                      b.where(site[0]))
        # per authenticated arm: a verifier is actually on the path (not only the NONE escape)
        for kind in AUTH_KINDS:
            for sbb, tg in kind_edges.get(kind, []):
                bad = False
                for site in sites:
                    pos = (site[0], site[1])
                    if pos in vdefs:
                        continue
                    if P.can_reach((tg, 0), pos, avoid_pos=vdefs, avoid_edges=cert):
                        bad = True
                rep.check(not bad, 'R16.1', '%s/arm:%s' % (name, kind.replace('CRYPTO_TRANSFORMATION_KIND_', '')), 'arm reaches success only through a verified continuation',
                          '%s: the %s arm can reach a success value without a verified continuation of validate_mac/decrypt' % (name, kind), b.where(tg))

    # ------------------------------------------------------------ R16.2
    n_calls = 0
    targets = ('aes_gcm_gmac::validate_mac', 'aes_gcm_gmac::decrypt', 'validate_receiver_specific_mac', 'verify_signature',
               'verify_signed_by_certificate', 'validate_remote_guid')
    for b in fx.bodies:
        if not b.key.startswith('security::'):
            continue
        for bb, t in b.calls():
            if not call_matches(t, *targets):
                continue
            n_calls += 1
            d = t['dest']
            used = False
            if d.get('p'):
                used = True
            else:
                l = d['l']
                if l == 0:
                    used = True
                for bb2 in b.live_blocks():
                    blk = b.blocks[bb2]
                    for st in blk['st']:
                        if st['s'] == 'assign' and _reads_local(st['rv'], l):
                            used = True
                    tt = blk['term']
                    if tt['t'] in ('call', 'tailcall') and any(a.get('o') in ('copy', 'move') and a['pl']['l'] == l for a in tt['args']):
                        used = True
                    if tt['t'] == 'switch' and tt['x'].get('o') in ('copy', 'move') and tt['x']['pl']['l'] == l:
                        used = True
            rep.check(used, 'R16.2', '%s/%s@%d' % (b.key, callee_res(t).rsplit('::', 1)[-1], n_calls), 'result consumed',
                      'the result of %s is discarded' % callee_res(t).rsplit('::', 1)[-1], b.where(bb))
            # and not neutralised by unwrap_or / is_ok-unused / ok()
            if used and not d.get('p'):
                og = Origins(b)
                for bb2, t2 in b.calls():
                    r2 = callee_res(t2)
                    if r2.endswith(('::unwrap_or', '::unwrap_or_default', '::ok', '::unwrap_or_else')) and t2['args']:
                        a0 = og.of_operand(t2['args'][0], bb2, 'term')
                        if a0[0] == 'call' and len(a0) > 3 and a0[3] == bb and call_matches(t, 'aes_gcm_gmac::validate_mac', 'aes_gcm_gmac::decrypt', 'verify_signature'):
                            rep.violation('R16.2', '%s/%s@%d/neutralised' % (b.key, callee_res(t).rsplit('::', 1)[-1], n_calls),
                                          'the verification result is turned into a default by %s' % r2.rsplit('::', 1)[-1], b.where(bb2))
    rep.floor('R16.2', n_calls, 10, 'calls of verification functions in security::')

    # ------------------------------------------------------------ R16.3
    vr = fx.find('validate_receiver_specific_macs::validate_receiver_specific_mac')
    rep.analysed(vr)
    og = Origins(vr, summaries=True)
    P = Pos(vr)
    nokey = [(s_, t_) for s_, t_, cond, lab in switch_edges(vr, fx, og)
             if cond[0] == 'discr' and cond[1] == ('field', 'receiver_specific_key', ('param', 1)) and lab in ('None', ('not', ('Some',)))]
    n_defs = 0
    for bb, si, st in vr.statements():
        if st['s'] == 'assign' and st['lhs']['l'] == 0 and not st['lhs'].get('p'):
            n_defs += 1
            rv = st['rv']
            x = rv.get('x') or {}
            if rv['r'] == 'use' and x.get('o') == 'const' and x['k'].get('v') == 0:
                rep.ok('R16.3', 'validate_receiver_specific_mac/def#%d' % n_defs, 'false', vr.where(bb, si))
            elif rv['r'] == 'use' and x.get('o') == 'const' and x['k'].get('v') == 1:
                # also fine: the Ok arm of a match on validate_mac(receiver-specific key, ..)
                vok = [(s_, t_) for s_, t_, cond, lab in switch_edges(vr, fx, og) if lab in ('Ok', 'Continue') and cond[0] == 'discr' and is_verifier_call_term(cond[1]) and
                       term_has(cond[1][2][0], lambda y: y[0] == 'field' and y[1] == 'key') and term_has(cond[1][2][0], lambda y: y[0] == 'field' and y[1] == 'receiver_specific_key')]
                ok = bool(nokey) and P.every_path_passes(None, (bb, si), via_edges=nokey + vok, from_entry=True)
                rep.check(ok, 'R16.3', 'validate_receiver_specific_mac/def#%d' % n_defs, 'true only when there is no receiver-specific key',
                          'validate_receiver_specific_mac returns true on a path where a receiver-specific key exists but no MAC was verified '
                          '(e.g. no MAC entry for our key id): origin authentication is bypassed', vr.where(bb, si))
            else:
                v = og._rvalue(rv, bb, si, 0)
                rep.violation('R16.3', 'validate_receiver_specific_mac/def#%d' % n_defs, 'result defined by an unrecognised expression %s' % term_str(v)[:100], vr.where(bb, si))
    for bb, t in vr.calls():
        if t['dest']['l'] == 0 and not t['dest'].get('p'):
            n_defs += 1
            r = callee_res(t)
            a0 = og.of_operand(t['args'][0], bb, 'term') if t['args'] else ('unknown',)
            good = False
            if is_verifier_call_term(a0) and r.endswith(('::map_or_else', '::is_ok', '::map_or')):
                good = True
                if r.endswith('::map_or_else'):
                    # error closure -> false on every path; ok closure may be true
                    errc = og.of_operand(t['args'][1], bb, 'term')
                    if errc[0] == 'agg':
                        for cb in fx.by_key.get(errc[1], []):
                            for cbb, csi, cst in cb.statements():
                                if cst['s'] == 'assign' and cst['lhs']['l'] == 0:
                                    x = cst['rv'].get('x') or {}
                                    if not (cst['rv']['r'] == 'use' and x.get('o') == 'const' and x['k'].get('v') == 0):
                                        good = False
                if r.endswith('::map_or'):
                    d0 = t['args'][1]
                    good = d0.get('o') == 'const' and d0['k'].get('v') == 0
                # the verified MAC must be looked up by OUR key id and verified with OUR key
                key_ok = term_has(a0[2][0], lambda x: x[0] == 'field' and x[1] == 'key') and term_has(a0[2][0], lambda x: x[0] == 'field' and x[1] == 'receiver_specific_key')
                good = good and key_ok
            rep.check(good, 'R16.3', 'validate_receiver_specific_mac/def#%d' % n_defs, 'Ok continuation of validate_mac with the receiver-specific key',
                      'validate_receiver_specific_mac derives its result from %s, not from the Ok/Err of validate_mac under the receiver-specific key' % r.rsplit('::', 1)[-1], vr.where(bb))
    rep.floor('R16.3', n_defs, 3, 'definitions of the result of validate_receiver_specific_mac')
    # the MAC entry is selected by key id equality
    fm = fx.find('validate_receiver_specific_macs::find_receiver_specific_mac')
    ok = False
    for c in fx.closures_of(fm):
        cog = Origins(c)
        for bb, t in c.calls():
            if callee_res(t).endswith(('::eq',)) or (t['f'].get('def') or '').endswith('PartialEq::eq'):
                a = cog.of_operand(t['args'][0], bb, 'term')
                a2 = cog.of_operand(t['args'][1], bb, 'term')
                if term_has(a, lambda x: x[0] == 'field' and x[1] == 'receiver_mac_key_id') or term_has(a2, lambda x: x[0] == 'field' and x[1] == 'receiver_mac_key_id'):
                    ok = True
    rep.check(ok, 'R16.3', 'find_receiver_specific_mac/by-key-id', 'MAC entry selected by receiver_mac_key_id == our key id',
              'the receiver-specific MAC entry is not selected by key id equality', fm.where())
    # callers gate on it
    dm = find_decode(fx, 'decode_rtps_message')
    og = Origins(dm, summaries=True)
    P = Pos(dm)
    rs_true = [(s_, t_) for s_, t_, cond, lab in switch_edges(dm, fx, og)
               if (cond[0] == 'call' and cond[1].endswith('validate_receiver_specific_mac') and lab is True) or
               (cond[0] == 'un' and cond[1] == 'Not' and cond[2][0] == 'call' and cond[2][1].endswith('validate_receiver_specific_mac') and lab is False)]
    vs = [(bb, 'term') for bb, t in dm.calls() if call_matches(t, *VERIFIERS)]
    ok = bool(rs_true) and bool(vs) and all(P.every_path_passes(None, v, via_edges=rs_true, from_entry=True) for v in vs)
    rep.check(ok, 'R16.3', 'decode_rtps_message/gated', 'common MAC / decryption only after the receiver-specific MAC passed',
              'decode_rtps_message reaches validate_mac/decrypt (and thus success) without validate_receiver_specific_mac being true', dm.where())
    ds = find_decode(fx, 'decode_submessage')
    og = Origins(ds, summaries=True)
    P = Pos(ds)
    cl = [c for c in fx.closures_of(ds) if any(call_matches(t, 'validate_receiver_specific_mac') for _, t in c.calls())]
    n_ok = 0
    for c in cl:
        cog = Origins(c, summaries=True)
        t0 = cog.of_local(0, c.return_blocks()[0], 'term')
        good = t0[0] == 'call' and t0[1].endswith('::then_some') and t0[2][0][0] == 'call' and t0[2][0][1].endswith('validate_receiver_specific_mac')
        n_ok += 1 if good else 0
        rep.check(good, 'R16.3', '%s/then_some' % c.key, 'endpoint kept only if its receiver-specific MAC validates',
                  'the endpoint filter does not keep an endpoint only when validate_receiver_specific_mac is true', c.where())
    rep.floor('R16.3', len(cl), 2, 'endpoint filters by receiver-specific MAC in decode_submessage')
    empt_false = [(s_, t_) for s_, t_, cond, lab in switch_edges(ds, fx, og) if cond[0] == 'call' and cond[1].endswith('::is_empty') and lab is False]
    for bb, si, st in ds.statements():
        if st['s'] == 'assign' and st['rv']['r'] == 'agg' and st['rv'].get('variant') in ('Writer', 'Reader') and 'DecodedSubmessage' in st['rv'].get('adt', ''):
            ok = bool(empt_false) and P.every_path_passes(None, (bb, si), via_edges=empt_false, from_entry=True)
            rep.check(ok, 'R16.3', 'decode_submessage/%s-nonempty' % st['rv']['variant'], 'Success only with a non-empty list of endpoints that passed the receiver-specific MAC',
                      'decode_submessage can report Success(%s) with no endpoint having passed the receiver-specific MAC check' % st['rv']['variant'], ds.where(bb, si))

    # ------------------------------------------------------------ R16.4
    for name in ('decode_rtps_message', 'decode_submessage', 'decode_serialized_payload'):
        b = find_decode(fx, name)
        bodies = [b] + fx.closures_of(b)
        found = False
        for c in bodies:
            cog = Origins(c, summaries=True)
            for bb, t in c.calls():
                d = (t['f'].get('def') or '')
                if d.endswith(('PartialEq::eq', 'PartialEq::ne')) and len(t['args']) == 2:
                    a = term_str(cog.of_operand(t['args'][0], bb, 'term'))
                    a2 = term_str(cog.of_operand(t['args'][1], bb, 'term'))
                    if 'transformation_kind' in a + a2 and 'BuiltinCryptoTransformationKind' in (t['f'].get('self_ty') or '') + str(t['f'].get('args')):
                        found = True
        rep.check(found, 'R16.4', '%s/kind-compared' % name, 'header transformation kind compared with the key material',
                  '%s does not compare the header transformation kind with the key material' % name, b.where())
        # ... and the comparison decides: from its mismatch edge no success is reachable (in the body that makes the comparison)
        for c in bodies:
            cog = Origins(c, summaries=True)
            Pc = Pos(c)
            succ = [(bb, si) for bb, si, st in c.statements() if st['s'] == 'assign' and st['rv']['r'] == 'agg' and
                    (st['rv'].get('variant') == 'Success' or (st['rv'].get('variant') == 'Ok' and st['lhs']['l'] == 0 and not st['lhs'].get('p') and name == 'decode_serialized_payload'))]
            k = 0
            for s_, t_, cond, lab in switch_edges(c, fx, cog):
                if not (cond[0] == 'call' and cond[1].endswith(('::eq', '::ne')) and len(cond[2]) == 2):
                    continue
                txt = term_str(cond)
                if not ('transformation_kind' in txt or 'key_id' in txt):
                    continue
                if not ((cond[1].endswith('::eq') and lab is False) or (cond[1].endswith('::ne') and lab is True)):
                    continue
                k += 1
                leak = [x for x in succ if Pc.can_reach((t_, 0), x, avoid_edges=infeasible_edges(c, fx, cog)) or Pc.norm((t_, 0)) == Pc.norm(x)]
                # a function that hands its result on from a call (no Ok aggregate of its own): the mismatch edge must run into an Err construction on every path
                errs = [(bb, si) for bb, si, st in c.statements() if st['s'] == 'assign' and st['lhs']['l'] == 0 and not st['lhs'].get('p') and st['rv']['r'] == 'agg' and st['rv'].get('variant') == 'Err']
                errs += [(bb, 'term') for bb, t in c.calls() if callee_res(t).endswith('from_residual') and t.get('dest', {}).get('l') == 0]
                if not succ:
                    inf_c = infeasible_edges(c, fx, cog)
                    leak += [(r, 'term') for r in c.return_blocks() if Pc.can_reach((t_, 0), (r, 'term'), avoid_pos=errs, avoid_edges=inf_c)]
                rep.check(not leak, 'R16.4', '%s/%s/mismatch-rejects#%d' % (name, c.key.rsplit('::', 1)[-1] if c is not b else 'body', k), 'the mismatch edge reaches no success',
                          '%s: the header %s is compared with the key material but a mismatch can still end in success: data protected under another transformation kind / key id '
                          'is accepted' % (name, 'transformation kind' if 'transformation_kind' in txt else 'key id'), c.where(s_))
    dm = find_decode(fx, 'decode_rtps_message')
    og = Origins(dm, summaries=True)
    keyid = any((t['f'].get('def') or '').endswith(('PartialEq::eq', 'PartialEq::ne')) and 'key_id' in term_str(og.of_operand(t['args'][0], bb, 'term')) + term_str(og.of_operand(t['args'][1], bb, 'term'))
                for bb, t in dm.calls() if len(t['args']) == 2)
    rep.check(keyid, 'R16.4', 'decode_rtps_message/key-id-compared', 'header key id compared with the key material', 'decode_rtps_message does not compare the header key id with the key material', dm.where())

    # ------------------------------------------------------------ R16.5
    rule_16_5(rep, fx)
    rule_16_6(rep, fx)
    rule_16_7(rep, fx)
    rule_16_9(rep, fx)
    rule_16_10(rep, fx)
    rule_16_11(rep, fx)
    rule_16_12(rep, fx)
    rule_16_13(rep, fx)
    rule_16_14(rep, fx)
    rule_16_15(rep, fx)

    # ------------------------------------------------------------ R16.8 crossed roles (shared lint, rdv/swaplint.py)
    from rdv import swaplint
    swaplint.run_rule(rep, facts['security'], 'R16.8', ['security::cryptographic', 'security::security_plugins'])


def _reads_local(rv, l):
    r = rv['r']
    ops = []
    if r in ('use', 'cast', 'repeat'):
        ops = [rv['x']]
    elif r == 'bin':
        ops = [rv['a'], rv['b']]
    elif r == 'un':
        ops = [rv['a']]
    elif r == 'agg':
        ops = rv['ops']
    elif r in ('ref', 'discr', 'rawptr'):
        return rv['pl']['l'] == l
    return any(o.get('o') in ('copy', 'move') and o['pl']['l'] == l for o in ops)


def rule_16_5(rep, fx):
    """The header key id must be tied to the key material that is actually used: the last thing get_decode_key_material does to the value it returns
    is to filter the *selected* single material on sender_key_id == header key id."""
    rep.rule('R16.5', 'key id bound to the material used: get_decode_key_material returns filter(selected material, |m| m.sender_key_id == key_id) - the comparison is applied to the '
                      'single material picked for the requested scope (not to "some material of the handle"), and nothing re-selects after it; the session-material getters pass the '
                      'header key id through unchanged')
    b = fx.find('CryptographicBuiltin::get_decode_key_material')
    rep.analysed(b)
    og = Origins(b)
    rets = b.return_blocks()
    t0 = og.of_local(0, rets[0], 'term') if rets else ('unknown',)
    ok = False
    why = 'the returned value is not Option::filter(..) of the selected material'
    if t0[0] == 'call' and t0[1].endswith('Option::filter') and len(t0[2]) == 2 and t0[2][1][0] == 'agg':
        clos_key = norm_path(str(t0[2][1][1]))
        cands = [c for c in fx.closures_of(b) if c.key == clos_key]
        inner = t0[2][0]
        selected = term_has(inner, lambda x: x[0] == 'agg' and any(
            any(callee_res(tt).endswith('KeyMaterial_AES_GCM_GMAC_seq::select') for _bb, tt in c.calls()) for c in fx.closures_of(b) if c.key == norm_path(str(x[1]))))
        if cands and selected:
            c = cands[0]
            pty = c.locals[2] if len(c.locals) > 2 else ''
            single = strip_generics(pty).replace('&', '').strip().endswith('KeyMaterial_AES_GCM_GMAC')
            ogc = Origins(c)
            cr = c.return_blocks()
            rv = ogc.of_local(0, cr[0], 'term') if cr else ('unknown',)
            cmp_ok = rv[0] == 'call' and rv[1].endswith('::eq') and len(rv[2]) == 2 and \
                any(term_has(x, lambda y: y[0] == 'field' and y[1] == 'sender_key_id' and term_has(y, lambda z: z == ('param', 2))) for x in rv[2]) and \
                any(term_has(x, lambda y: y[0] in ('captured', 'field') and 'key_id' in str(y[1]) and term_has(y, lambda z: z == ('param', 1))) for x in rv[2])
            # the captured key_id is the function's own key_id parameter
            cap = dict(zip(t0[2][1][3], t0[2][1][2]))
            cap_ok = cap.get('key_id') == ('param', 3)
            ok = single and cmp_ok and cap_ok
            why = 'predicate parameter is %s, comparison %s, captured key id %s' % (pty, term_str(rv)[:80], cap.get('key_id'))
        elif not selected:
            why = 'the filtered value is not the material selected for the requested scope'
    rep.check(ok, 'R16.5', 'get_decode_key_material/filter-on-selected', 'Some(m) only if m = select(scope) and m.sender_key_id == key_id',
              'get_decode_key_material does not bind the header key id to the key material it returns (%s): a message carrying the id of the sender\'s other key material '
              'is decoded with the wrong-scope material instead of being rejected' % why, b.where())
    # the key id handed down is the one of the received header
    n = 0
    for cb, bb, t in fx.callers_of('get_decode_key_material') + fx.callers_of('get_session_decode_crypto_materials') + fx.callers_of('session_decode_crypto_materials'):
        if cb.key.endswith(('get_decode_key_material',)):
            continue
        n += 1
        ogc = Origins(cb, summaries=True)
        kid = ogc.of_operand(t['args'][2], bb, 'term')
        good = kid[0] == 'param' or term_has(kid, lambda x: x[0] == 'field' and x[1] in ('transformation_key_id', 'header_key_id'))
        rep.check(good, 'R16.5', '%s/key-id-arg#%d' % (cb.key, n), 'key id = %s' % term_str(kid)[:60],
                  '%s passes a key id that is not the received header\'s (%s)' % (cb.key, term_str(kid)[:80]), cb.where(bb))
    rep.floor('R16.5', n, 3, 'call sites handing the header key id to the key-material lookup')


def rule_16_6(rep, fx):
    """Framing must hand the decoder the byte string the encoder produced. DATA framing pads the payload to a 4-byte boundary and the DATA parser returns
    everything up to the end of the submessage; decode_serialized_payload finds the CryptoFooter by counting back from the end. The three facts together
    require that what goes into the DATA submessage is already 4-aligned."""
    rep.rule('R16.6', 'payload framing: Data::write_to pads the payload to 4 bytes and decode_serialized_payload locates the CryptoFooter from the end of what the DATA parser returns, '
                      'so data_msg must hand encode_serialized_payload a plaintext padded to a 4-byte boundary (header and footer sizes are multiples of 4); otherwise every '
                      'protected payload whose length is not a multiple of 4 is rejected by the receiver')
    dw = [b for b in fx.bodies if b.key.startswith('<messages::submessages::data::Data as speedy::Writable') and b.key.endswith('::write_to')]
    dec = [b for b in fx.bodies if b.key.endswith('::decode_serialized_payload') and 'crypto_transform' in b.key]
    dm = fx.find('rtps::message::MessageBuilder::data_msg')
    if len(dw) != 1 or len(dec) != 1:
        raise CheckBroken('Data::write_to (%d) / decode_serialized_payload (%d) not found' % (len(dw), len(dec)))
    rep.analysed(dw[0], dec[0], dm)
    pads = any(callee_res(t).endswith('padding_needed_for_alignment_4') for _bb, t in dw[0].calls())
    ogd = Origins(dec[0])
    from_end = False
    for bb, t in dec[0].calls():
        if callee_res(t).endswith('split_at') and len(t['args']) == 2:
            idx = ogd.of_operand(t['args'][1], bb, 'term')
            if term_has(idx, lambda x: x[0] == 'bin' and x[1].startswith('Sub') and term_has(x[2], lambda y: y[0] == 'call' and y[1].endswith('::len'))
                        and term_has(x[3], lambda y: y[0] == 'call' and 'serialized_len' in y[1])):
                from_end = True
    rep.ok('R16.6', 'facts', 'DATA framing pads: %s; footer located from the end: %s' % (pads, from_end), dw[0].where())
    n = 0
    for c in [dm] + fx.closures_of(dm):
        for bb, t in c.calls():
            if not callee_res(t).endswith('encode_serialized_payload'):
                continue
            n += 1
            P = Pos(c)
            aligners = [(ab, 'term') for ab, at in c.calls() if callee_res(at).rsplit('::', 1)[-1] in ('round_up_to_4', 'padding_needed_for_alignment_4')]
            growers = [(ab, 'term') for ab, at in c.calls() if callee_res(at).rsplit('::', 1)[-1] in ('resize', 'extend', 'extend_from_slice', 'push', 'resize_with')]
            aligned = bool(aligners) and bool(growers) and P.every_path_passes(None, (bb, 'term'), via_pos=growers, from_entry=True)
            ok = aligned or not (pads and from_end)
            rep.check(ok, 'R16.6', 'data_msg/encoded-payload-aligned', 'plaintext padded to 4 before protection' if aligned else 'framing adds nothing / footer not located from the end',
                      'data_msg protects the serialized payload as it is; DATA framing then appends 1..3 pad bytes after the CryptoFooter and decode_serialized_payload, which takes the '
                      'last bytes as the footer, fails the MAC check: a protected payload whose length is not a multiple of 4 never reaches the reader', c.where(bb))
    rep.floor('R16.6', n, 1, 'calls of encode_serialized_payload in data_msg')


def rule_16_7(rep, fx):
    """Who a decoded submessage is approved for: only the local endpoints matched with a remote endpoint whose key id matched, whose key verified/decrypted the submessage
    and which passed the receiver-specific MAC filter."""
    rep.rule('R16.7', 'approved endpoints: the endpoint list returned in Success(DecodedSubmessage::Writer/Reader(_, list)) by decode_submessage is derived from the filtered chain '
                      '(key-id lookup of the decode material, then the receiver-specific MAC filter in the GMAC and GCM arms), never from the raw list of all endpoints of the sending participant')
    bs = [x for x in fx.bodies if x.key.endswith('crypto_transform::decode_submessage')]
    if len(bs) != 1:
        raise CheckBroken('decode_submessage not found')
    b = bs[0]
    rep.analysed(b)
    og = Origins(b, summaries=False)
    clos = {c.key: c for c in fx.closures_of(b)}
    n = 0
    for bb, si, st in b.statements():
        if not (st['s'] == 'assign' and st['rv']['r'] == 'agg' and st['rv'].get('variant') in ('Writer', 'Reader') and 'DecodedSubmessage' in str(st['rv'].get('adt'))):
            continue
        n += 1
        L = og.of_operand(st['rv']['ops'][1], bb, si)
        used = set()
        term_has(L, lambda x: x[0] == 'agg' and 'closure' in str(x[1]) and used.add(norm_path(str(x[1]))))
        calls = set()
        for k in used:
            if k in clos:
                calls |= set(callee_res(t).rsplit('::', 1)[-1] for _bb, t in clos[k].calls())
        ok = 'get_session_decode_crypto_materials' in calls or 'session_decode_crypto_materials' in calls
        ok = ok and 'validate_receiver_specific_mac' in calls
        rep.check(ok, 'R16.7', 'decode_submessage/%s-approved-list' % st['rv']['variant'], 'list derived through the key-id lookup and the receiver-specific MAC filter',
                  'decode_submessage approves a decoded %s submessage for endpoints that did not go through the key-id lookup and the receiver-specific MAC filter (stages seen: %s): a '
                  'submessage protected under one endpoint\'s key is delivered to the local endpoints matched with the sender\'s other endpoints' % (
                      st['rv']['variant'].lower(), sorted(c for c in calls if 'session' in c or 'mac' in c) or 'none'), b.where(bb, si))
    rep.floor('R16.7', n, 2, 'Success(DecodedSubmessage::..) constructions in decode_submessage')


IS = 'messages::submessages::info_source::InfoSource'
HDR = 'messages::header::Header'


def rule_16_9(rep, fx):
    """Message-level protection leaves the RTPS header in the clear; what binds it to the protected content is the InfoSource copy of it inside."""
    rep.rule('R16.9', 'clear-text header binding: every Success(Message{header, ..}) of decode_rtps_message lies behind the true edge of a whole-value equality between '
                      'InfoSource::from(that header) and the InfoSource found inside the protected content; InfoSource derives PartialEq (all fields), From<Header> copies '
                      'protocol_version, vendor_id and guid_prefix field by field, and encode_rtps_message puts InfoSource::from(header of the message) in front of the protected content')
    dec = find_decode(fx, 'decode_rtps_message')
    n = 0
    for b in [dec] + [k for k in fx.closures_of(dec) if k.kind == 'closure']:
        succ = [(bb, si, st) for bb, si, st in b.statements() if st['s'] == 'assign' and st['rv']['r'] == 'agg' and st['rv'].get('variant') == 'Success'
                and 'DecodeOutcome' in str(st['rv'].get('adt') or st['rv'].get('what') or st['rv'])]
        if not succ:
            continue
        rep.analysed(b)
        og = Origins(b, summaries=True)
        ogn = Origins(b, transparent=False, summaries=False)
        P = Pos(b)
        edges = list(switch_edges(b, fx, og))
        infeas = infeasible_edges(b, fx, og, edges)
        # equality calls on InfoSource: (block, header operand origin) when one side is From<Header>::from(..)
        bind_edges = []
        bound_headers = []
        for bb, t in b.calls():
            f = t['f']
            if f.get('def') == 'std::cmp::PartialEq::eq' and strip_generics(f.get('self_ty') or '') == IS and [strip_generics(a) for a in f.get('args', [])] == [IS, IS]:
                sides = [ogn.of_operand(a, bb, 'term') for a in t['args']]

                def conv_arg(x):
                    """header operand if x is (a reference to) the result of <InfoSource as From<Header>>::from(h)"""
                    x = _strip(x)
                    if x[0] == 'call' and len(x) > 3:
                        ff = b.blocks[x[3]]['term']['f']
                        if ff.get('def') == 'std::convert::From::from' and [strip_generics(a) for a in ff.get('args', [])] == [IS, HDR]:
                            return _strip(x[2][0])
                    return None
                hs = [conv_arg(x) for x in sides]
                if sum(1 for h in hs if h is not None) != 1:
                    continue
                hdr = [h for h in hs if h is not None][0]
                # the switch on the bool result
                for s_, t_, cond, lab in edges:
                    if lab is True and cond[0] == 'call' and len(cond) > 3 and cond[3] == bb:
                        bind_edges.append((s_, t_))
                        bound_headers.append(hdr)
        for bb, si, st in succ:
            n += 1
            msg = og.of_operand(st['rv']['ops'][0], bb, si)
            hterm = None
            if msg[0] == 'agg' and str(msg[1]).endswith('Message') and len(msg) > 3 and 'header' in msg[3]:
                hterm = msg[2][list(msg[3]).index('header')]
            dom = bool(bind_edges) and P.every_path_passes(None, (bb, si), via_edges=bind_edges + list(infeas), from_entry=True)
            same = hterm is not None and any(_strip(hterm) == h for h in bound_headers)
            rep.check(dom and same, 'R16.9', '%s/Success#%d' % (b.key.split('crypto_transform::')[-1], n), 'behind InfoSource::from(header) == protected InfoSource, same header',
                      'decode_rtps_message returns Success(Message{header, ..}) without the whole header-derived InfoSource having been found equal to the protected one '
                      '(dominated=%s, same header=%s): version / vendor / prefix bytes of the clear-text header can be altered in transit undetected' % (dom, same), b.where(bb, si))
    rep.floor('R16.9', n, 1, 'Success(Message{..}) constructions in decode_rtps_message')
    # the equality is the derived one, the conversion copies the three fields
    derived = [im for im in fx.impls if strip_generics(im.get('self_ty') or '') == IS and im.get('trait_def') == 'std::cmp::PartialEq']
    rep.check(len(derived) == 1 and bool(derived[0].get('derived')), 'R16.9', 'InfoSource/PartialEq-derived', 'derived PartialEq compares every field',
              'InfoSource no longer derives PartialEq: the header binding compares whatever the hand-written eq compares', '')
    conv = fx.find('<%s as std::convert::From<%s>>::from' % (IS, HDR))
    rep.analysed(conv)
    ogc = Origins(conv)
    okc = False
    for bb, si, st in conv.statements():
        if st['s'] == 'assign' and st['lhs']['l'] == 0 and st['rv']['r'] == 'agg':
            flds = st['rv'].get('fields') or []
            vals = {f: ogc.of_operand(o, bb, si) for f, o in zip(flds, st['rv']['ops'])}
            okc = all(f in vals and vals[f] == ('field', f, ('param', 1)) for f in ('protocol_version', 'vendor_id', 'guid_prefix'))
    rep.check(okc, 'R16.9', 'InfoSource::from(Header)/fields', 'protocol_version, vendor_id, guid_prefix copied from the same-named header fields',
              'From<Header> for InfoSource does not copy protocol_version, vendor_id and guid_prefix from the header: part of the clear-text header is not bound to the protected content', conv.where())
    enc = find_decode(fx, 'encode_rtps_message')
    rep.analysed(enc)
    oge = Origins(enc, transparent=False, summaries=False)
    convs = [(bb, t) for bb, t in enc.calls() if t['f'].get('def') == 'std::convert::From::from' and [strip_generics(a) for a in t['f'].get('args', [])] == [IS, HDR]]
    oke = len(convs) == 1 and term_has(oge.of_operand(convs[0][1]['args'][0], convs[0][0], 'term'), lambda z: z[0] == 'field' and z[1] == 'header')
    rep.check(oke, 'R16.9', 'encode_rtps_message/info-source-of-own-header', 'InfoSource::from(header of the message being encoded)',
              'encode_rtps_message does not derive the protected InfoSource from the header of the message it encodes', enc.where())


def _strip(t):
    while isinstance(t, tuple) and t and t[0] in ('deref', 'ref', 'copy', 'move') and len(t) > 1 and isinstance(t[1], tuple):
        t = t[1]
    return t


KM = 'security::cryptographic::cryptographic_builtin::key_material::KeyMaterial_AES_GCM_GMAC_seq::'


def rule_16_10(rep, fx):
    """An endpoint whose submessage and payload protection kinds differ has two key materials. The receiver-specific key (origin authentication of submessages) belongs to
    the material that protects submessages: if it lands on the payload-only one, both sides consistently believe that no receiver-specific MAC is expected."""
    rep.rule('R16.10', 'key-material positions: in KeyMaterial_AES_GCM_GMAC_seq the position that modify_key_material (hence add_master_receiver_specific_key) rewrites in the Two '
                       'variant is the position select(MessageOrSubmessage) and key_material() return, the other position passes through unchanged in place, and '
                       'select(PayloadOnly) returns the other position; One has a single position everywhere')
    sel = fx.find(KM + 'select')
    mod = fx.find(KM + 'modify_key_material')
    km = fx.find(KM + 'key_material')
    rep.analysed(sel, mod, km)
    # select: which field of Two is returned under which scope
    ogs = Origins(sel, summaries=False)
    table = {}
    scope_adt = fx.adt(KM.rsplit('::', 2)[0] + '::KeyMaterialScope')
    P = Pos(sel)
    for s_, t_, cond, lab in switch_edges(sel, fx, ogs):
        if isinstance(lab, str) and lab in ('MessageOrSubmessage', 'PayloadOnly'):
            refs = []
            for bb, _k in P.reach((t_, 0), include_start=True):
                for st in sel.blocks[bb]['st']:
                    if st['s'] == 'assign' and st['rv']['r'] == 'ref':
                        pr = st['rv']['pl'].get('p') or []
                        idx = [e.get('n') for e in pr if isinstance(e, dict) and e.get('n') in ('0', '1')]
                        var = [e.get('v') or e.get('variant') for e in pr if isinstance(e, dict) and (e.get('v') or e.get('variant'))]
                        if idx and ('Two' in str(pr)):
                            refs.append(idx[-1])
            table[lab] = sorted(set(refs))
    # a switch arm reaches the code of the other arm's join only; keep the first ref of each arm
    ogm = Origins(mod, summaries=False)
    modified = kept = None
    for bb, si, st in mod.statements():
        if st['s'] == 'assign' and st['lhs']['l'] == 0 and st['rv']['r'] == 'agg' and st['rv'].get('variant') == 'Two':
            for i, o in enumerate(st['rv']['ops']):
                v = ogm.of_operand(o, bb, si)
                src = [x for x in _subterms16(v) if x[0] == 'field' and x[1] in ('0', '1') and x[2][0] == 'variant' and x[2][1] == 'Two']
                through_f = term_has(v, lambda x: x[0] == 'call' and x[1].endswith('call_once'))
                if through_f and src:
                    modified = (i, int(src[0][1]))
                elif src:
                    kept = (i, int(src[0][1]))
    ogk = Origins(km, summaries=False)
    km_idx = None
    for bb, si, st in km.statements():
        if st['s'] == 'assign' and st['rv']['r'] == 'ref' and 'Two' in str(st['rv']['pl'].get('p')):
            idx = [e.get('n') for e in (st['rv']['pl'].get('p') or []) if isinstance(e, dict) and e.get('n') in ('0', '1')]
            if idx:
                km_idx = int(idx[-1])
    sub = table.get('MessageOrSubmessage')
    pay = table.get('PayloadOnly')
    ok = modified is not None and kept is not None and modified[0] == modified[1] and kept[0] == kept[1] and modified[0] != kept[0] and \
        sub is not None and pay is not None and str(modified[0]) in sub and str(kept[0]) in pay and str(modified[0]) not in [x for x in pay if x not in sub] and km_idx == modified[0]
    rep.check(ok, 'R16.10', 'KeyMaterial_AES_GCM_GMAC_seq/positions', 'modify rewrites position %s = select(MessageOrSubmessage) = key_material(); position %s (payload only) passes through' % (
        modified[0] if modified else '?', kept[0] if kept else '?'),
        'KeyMaterial_AES_GCM_GMAC_seq: modify_key_material rewrites Two position %s (kept: %s) while select(MessageOrSubmessage) returns %s, select(PayloadOnly) %s and key_material() %s: '
        'the receiver-specific key is attached to a material that does not protect submessages, so no receiver-specific MAC is produced or expected and a submessage addressed to one '
        'reader decodes at another' % (modified, kept, sub, pay, km_idx), mod.where())


def _subterms16(t):
    out = []

    def walk(x):
        if isinstance(x, tuple):
            if x and isinstance(x[0], str):
                out.append(x)
            for y in x:
                walk(y)
    walk(t)
    return out


def rule_16_11(rep, fx):
    """What is decoded is what was encoded: every submessage found inside the decrypted content of a protected RTPS message is part of the decoded message."""
    rep.rule('R16.11', 'nothing dropped: in decode_rtps_message every submessage parsed out of the decrypted content (Submessage::read_from_buffer == Some(s) in the loop) is pushed to the '
                       'result before the next one is parsed, and the result list of the GMAC arm is the whole list after the InfoSource')
    dm = find_decode(fx, 'decode_rtps_message')
    n = 0
    for b in [dm] + fx.closures_of(dm):
        og = Origins(b, summaries=False)
        P = Pos(b)
        reads = [(bb, t) for bb, t in b.calls() if callee_res(t).endswith('Submessage::read_from_buffer')]
        pushes = [(bb, 'term') for bb, t in b.calls() if callee_res(t).endswith('::push')]
        from rdv.core import natural_loops
        loops = natural_loops(b)
        for rb, t in reads:
            inloop = [l for l in loops if rb in l[1]]
            if not inloop:
                continue
            n += 1
            some = [(s_, t_) for s_, t_, cond, lab in switch_edges(b, fx, og) if lab == 'Some' and cond[0] == 'discr' and term_has(cond, lambda x: x[0] == 'call' and len(x) > 3 and x[3] == rb)]
            ok = bool(some) and bool(pushes)
            for s_, t_ in some:
                if P.can_reach((t_, 0), (rb, 'term'), avoid_pos=pushes):
                    ok = False
            rep.check(ok, 'R16.11', 'decode_rtps_message/%s/every-submessage-kept' % (b.key.rsplit('::', 1)[-1] if b is not dm else 'body'), 'Some(submessage) => push before the next read',
                      'decode_rtps_message can parse a submessage out of the decrypted content and not put it into the decoded message: the receiver decodes less than the sender encoded',
                      b.where(rb))
            # the loop goes on until the content is used up: the edge that leaves it is "the remaining content is empty" (negations and `== false` read through)
            blocks = inloop[0][1]
            leave = []
            for s_, t_, cond, lab in switch_edges(b, fx, og):
                if s_ in blocks and t_ not in blocks and isinstance(lab, bool):
                    leave.append((cond, lab))
            okx = bool(leave)
            for cond, lab in leave:
                neg, c = False, cond
                while True:
                    if c[0] == 'un' and c[1] == 'Not':
                        neg, c = not neg, c[2]
                    elif c[0] == 'bin' and c[1] in ('Eq', 'Ne') and any(x[0] == 'const' for x in c[2:4]):
                        k = [x for x in c[2:4] if x[0] == 'const'][0]
                        other = [x for x in c[2:4] if x is not k][0]
                        if (c[1] == 'Eq') != (str(k[2]) in ('1', 'true', 'True')):
                            neg = not neg
                        c = other
                    else:
                        break
                if not (c[0] == 'call' and c[1].endswith('is_empty') and (lab != neg)):
                    okx = False
            rep.check(okx, 'R16.11', 'decode_rtps_message/%s/until-used-up' % (b.key.rsplit('::', 1)[-1] if b is not dm else 'body'), 'the parsing loop is left only when the remaining content is empty',
                      'decode_rtps_message stops parsing the decrypted content before it is used up (the loop condition is not "content not empty"): a protected message is accepted '
                      'with submessages missing', b.where(rb))
    rep.floor('R16.11', n, 1, 'submessage parsing loops in decode_rtps_message')


def _uncap(t):
    """captured values and borrows read through"""
    if isinstance(t, tuple):
        if t and t[0] == 'captured' and len(t) > 2:
            return _uncap(t[2])
        if t and t[0] in ('ref', 'deref', 'copy') and len(t) > 1 and isinstance(t[1], tuple):
            return _uncap(t[1])
        return tuple(_uncap(x) for x in t)
    return t


def _drop_bb(t):
    """call terms without their block number (the same expression evaluated twice is the same value here: pure accessors of the parsed header)"""
    if isinstance(t, tuple):
        if t and t[0] == 'call' and len(t) > 3:
            return ('call', t[1], _drop_bb(t[2]))
        return tuple(_drop_bb(x) for x in t)
    return t


def rule_16_12(rep, fx):
    """The session key ties a protected unit to (master key, salt, session id): altering the session id or producing the unit under other key material must change the
    key the receiver derives, and the initialisation vector used for the check must be the one the unit carries."""
    from rdv.core import resolve_captures
    CB = 'security::cryptographic::cryptographic_builtin::CryptographicBuiltin::'
    rep.rule('R16.12', 'session key and IV binding: compute_session_key is HMAC-SHA256 keyed by master_key.as_bytes() over [prefix, master_salt.as_bytes(), iv.session_id().as_bytes()] '
                       'in this order, prefix = b"SessionKey" / b"SessionReceiverKey" for ReceiverSpecific::No / Yes; every caller passes (No, master_sender_key) or (Yes, a '
                       'receiver-specific key) with the master_salt of the same key material; on the decode side key material comes from get_decode_key_material(handle, header '
                       'key id, scope) and the IV is the parameter "as received in header"; in the three decode functions the IV handed to the key derivation, to validate_mac / '
                       'decrypt and to validate_receiver_specific_mac is one and the same builtin_crypto_header_extra.0 of the parsed CryptoHeader, and the MAC checked is the '
                       'footer\'s common_mac; on the encode side both keys are derived from the IV that goes into EncodeSessionMaterials')
    c = fx.find(CB + 'compute_session_key')
    rep.analysed(c)
    og = Origins(c, summaries=False)
    bad = []
    keys = [(bb, t) for bb, t in c.calls() if callee_res(t).endswith('hmac::Key::new')]
    signs = [(bb, t) for bb, t in c.calls() if callee_res(t).endswith('hmac::sign')]
    if len(keys) != 1 or len(signs) != 1:
        bad.append('not one hmac::Key::new and one hmac::sign')
    else:
        k = og.of_operand(keys[0][1]['args'][1], keys[0][0], 'term')
        if not (k[0] == 'call' and k[1].endswith('as_bytes') and _uncap(k[2][0]) == ('param', 2)):
            bad.append('the HMAC key is %s, not master_key.as_bytes()' % term_str(k)[:60])
        d = og.of_operand(signs[0][1]['args'][1], signs[0][0], 'term')
        arr = [x for x in _aggs16(d) if str(x[1]).startswith('array')]
        if not (d[0] == 'call' and d[1].endswith('concat') and arr and len(arr[0][2]) == 3):
            bad.append('the signed data is not the concatenation of three parts (%s)' % term_str(d)[:80])
        else:
            p0, p1, p2 = arr[0][2]
            pre = sorted(x[3] for x in _consts16(p0) if len(x) > 3 and x[1] == 'ptr')
            if pre != [b'SessionKey', b'SessionReceiverKey']:
                bad.append('prefixes are %s' % pre)
            if not (p1[0] == 'call' and p1[1].endswith('as_bytes') and _uncap(p1[2][0]) == ('param', 3)):
                bad.append('second part is %s, not master_salt.as_bytes()' % term_str(p1)[:60])
            if not (p2[0] == 'call' and p2[1].endswith('as_bytes') and p2[2][0][0] == 'call' and p2[2][0][1].endswith('session_id') and _uncap(p2[2][0][2][0]) == ('param', 4)):
                bad.append('third part is %s, not iv.session_id().as_bytes()' % term_str(p2)[:60])
        # prefix by variant
        for s_, t_, cond, lab in switch_edges(c, fx, og):
            if cond[0] == 'discr' and cond[1] == ('param', 1) and lab in ('No', 'Yes'):
                got = None
                for st in c.blocks[t_]['st']:
                    if st['s'] == 'assign':
                        for x in _consts16(og._rvalue(st['rv'], t_, 0, 0)):
                            if len(x) > 3 and x[1] == 'ptr':
                                got = x[3]
                want = b'SessionKey' if lab == 'No' else b'SessionReceiverKey'
                if got is not None and got != want:
                    bad.append('ReceiverSpecific::%s uses the prefix %r' % (lab, got))
        # the result is the tag
        r0 = og.of_local(0, c.return_blocks()[0], 'term')
        if not term_has(r0, lambda x: x[0] == 'call' and x[1].endswith('hmac::sign')):
            bad.append('the returned key is not built from the HMAC tag')
    rep.check(not bad, 'R16.12', 'compute_session_key/formula', 'HMAC(master_key, prefix ++ master_salt ++ session_id), prefix by ReceiverSpecific',
              'compute_session_key is not the session key derivation of DDS Security 9.5.3.3.3 (%s): the key no longer depends on every input an attacker may alter, or sender and '
              'receiver keys coincide' % '; '.join(bad[:3]), c.where())
    # callers
    n = 0
    for b in fx.bodies:
        ogb = None
        for bb, t in b.calls():
            if not callee_res(t).endswith('compute_session_key'):
                continue
            ogb = ogb or Origins(b, summaries=False)
            n += 1
            args = [ogb.of_operand(a, bb, 'term') for a in t['args']]
            if b.kind == 'closure':
                args = [resolve_captures(fx, b, a, summaries=False) for a in args]
            spec = 'Yes' if 'ReceiverSpecific::Yes' in str(args[0]) else ('No' if 'ReceiverSpecific::No' in str(args[0]) else '?')
            key_s, salt_s = term_str(args[1]), term_str(args[2])
            if spec == 'No':
                okk = 'master_sender_key' in key_s or (b.name == 'session_encoding_materials')
            else:
                okk = 'master_receiver_specific_key' in key_s or key_s.endswith('.key') or '.key' in key_s
            oks = 'master_salt' in salt_s or b.name == 'session_encoding_materials'
            decode = 'decode' in b.key
            okiv = (_uncap(args[3]) == ('param', 5)) if decode else term_has(args[3], lambda x: x[0] == 'call' and x[1].endswith('random_initialization_vector'))
            src_ok = (not decode) or (term_has(args[1], lambda x: x[0] == 'call' and x[1].endswith('get_decode_key_material')) and
                                      _drop_bb(_base_call(args[1], 'get_decode_key_material')) == _drop_bb(_base_call(args[2], 'get_decode_key_material')))
            rep.check(spec != '?' and okk and oks and okiv and src_ok, 'R16.12', '%s/derive#%d' % (b.key.split('CryptographicBuiltin::')[-1], n),
                      '(%s, matching key, master_salt of the same material, %s)' % (spec, 'IV as received' if decode else 'the IV that is sent'),
                      '%s derives a session key from (%s, key %s, salt %s, iv %s): not the key/salt pair of one key material under the IV of the unit' %
                      (b.key.split('CryptographicBuiltin::')[-1], spec, key_s[-50:], salt_s[-40:], term_str(args[3])[:50]), b.where(bb))
    rep.floor('R16.12', n, 4, 'compute_session_key call sites')
    # decode functions: one IV
    for name in ('decode_rtps_message', 'decode_submessage', 'decode_serialized_payload'):
        d = find_decode(fx, name)
        fam = [d] + fx.closures_of(d)
        ivs_key, ivs_use, macs = [], [], []
        for b in fam:
            ogb = Origins(b, summaries=False)
            for bb, t in b.calls():
                cr = callee_res(t)
                last = cr.rsplit('::', 1)[-1]

                def A(i):
                    v = ogb.of_operand(t['args'][i], bb, 'term')
                    return _drop_bb(_uncap(resolve_captures(fx, b, v, summaries=False) if b.kind == 'closure' else v))
                if last in ('session_decode_crypto_materials', 'get_session_decode_crypto_materials'):
                    ivs_key.append(A(len(t['args']) - 1))
                elif last in ('validate_mac', 'decrypt') and 'aes_gcm_gmac' in cr:
                    ivs_use.append(A(1))
                    macs.append(A(3))
                elif last == 'validate_receiver_specific_mac':
                    ivs_use.append(A(1))
                    macs.append(A(2))
        ok = bool(ivs_key) and len(ivs_use) >= 2 and len(set(map(repr, ivs_key + ivs_use))) == 1 and \
            all(term_has(x, lambda y: y[0] == 'field' and y[1] == 'builtin_crypto_header_extra') for x in ivs_key + ivs_use) and \
            all(term_has(x, lambda y: y[0] == 'field' and y[1] == 'common_mac') for x in macs)
        rep.check(ok, 'R16.12', '%s/one-iv' % name, '%d key derivation(s) and %d verification(s) under the header\'s IV; MAC = footer.common_mac' % (len(ivs_key), len(ivs_use)),
                  '%s does not use one and the same initialisation vector - the one in the unit\'s CryptoHeader - for the key derivation and for every MAC check / decryption '
                  '(distinct IV expressions: %d), or checks a MAC other than the footer\'s common_mac: an altered IV or session id is not rejected' %
                  (name, len(set(map(repr, ivs_key + ivs_use)))), d.where())


def _base_call(t, suffix):
    out = []

    def rec(x):
        if isinstance(x, tuple):
            if x and x[0] == 'call' and x[1].endswith(suffix):
                out.append(x)
            for y in x:
                rec(y)
    rec(t)
    return out[0] if out else None


def _aggs16(t):
    out = []

    def rec(x):
        if isinstance(x, tuple):
            if x and x[0] == 'agg':
                out.append(x)
            for y in x:
                rec(y)
    rec(t)
    return out


def _consts16(t):
    out = []

    def rec(x):
        if isinstance(x, tuple):
            if x and x[0] == 'const':
                out.append(x)
                return
            for y in x:
                rec(y)
    rec(t)
    return out


def rule_16_13(rep, fx):
    """The four primitives every protection kind rests on. R16.1 puts each success behind their Ok; this rule decides that their Ok means what it should."""
    A_ = 'security::cryptographic::cryptographic_builtin::aes_gcm_gmac::'
    rep.rule('R16.13', 'primitives: validate_mac(key, iv, data, mac) is Ok only on the success of ring\'s open_in_place(Aad::from(data), in_out) with in_out = exactly the MAC bytes, '
                       'under the key made from `key` and the single nonce made from `iv`; decrypt(key, iv, ciphertext, mac) only on open_in_place(Aad::empty(), ciphertext ++ mac) '
                       '(in this order) and returns that buffer cut to the plaintext length; compute_mac / encrypt are the mirror images (same AAD choice, same key and nonce '
                       'construction), so that what the sender produces is what the receiver checks; the nonce sequence hands out self.iv once')
    spec = {'validate_mac': ('open_in_place', 'from', ['arg4']), 'decrypt': ('open_in_place', 'empty', ['arg3', 'arg4']),
            'compute_mac': ('seal_in_place_separate_tag', 'from', None), 'encrypt': ('seal_in_place_separate_tag', 'empty', None)}
    for nm, (op, aad, fill) in spec.items():
        b = fx.find(A_ + nm)
        rep.analysed(b)
        og = Origins(b, summaries=False)
        P = Pos(b)
        bad = []
        ops = [(bb, t) for bb, t in b.calls() if callee_res(t).endswith('::' + op)]
        if len(ops) != 1:
            bad.append('%d calls of %s' % (len(ops), op))
        else:
            bb, t = ops[0]
            k, a, buf = (og.of_operand(x, bb, 'term') for x in t['args'])
            if not (term_has(k, lambda x: x[0] == 'call' and x[1].endswith('to_unbound_AES_GCM_key') and _uncap(x[2][0]) == ('param', 1)) and
                    term_has(k, lambda x: x[0] == 'call' and x[1].endswith('TrivialNonceSequence::new') and _uncap(x[2][0]) == ('param', 2))):
                bad.append('key / nonce are not made from the key and iv parameters')
            if aad == 'from':
                if not (a[0] == 'call' and a[1].endswith('::from') and _uncap(a[2][0]) == ('param', 3)):
                    bad.append('the authenticated data is %s, not Aad::from(data)' % term_str(a)[:40])
            elif not (a[0] == 'call' and a[1].endswith('::empty')):
                bad.append('the authenticated data is %s, not Aad::empty()' % term_str(a)[:40])
            if fill is not None:
                # what was put into the in/out buffer before the call, in order
                ext = [(eb, et) for eb, et in b.calls() if callee_res(et).endswith('extend_from_slice') and P.can_reach((eb, 'term'), (bb, 'term'))]
                got = [term_str(_uncap(og.of_operand(et['args'][1], eb, 'term'))) for eb, et in sorted(ext)]
                got = [g.replace('as_ref(', '').rstrip(')') if g.startswith('as_ref(') else g for g in got]
                if got != fill or any(P.can_reach((ext[i + 1][0], 'term'), (ext[i][0], 'term')) for i in range(len(ext) - 1)):
                    bad.append('the buffer is filled with %s, expected %s' % (got, fill))
                if not term_has(buf, lambda x: x[0] == 'call' and x[1].endswith('with_capacity')):
                    bad.append('the buffer handed to %s is not the one filled' % op)
            elif nm == 'compute_mac':
                if not (buf[0] == 'agg' and str(buf[1]).startswith('array') and not buf[2]):
                    bad.append('compute_mac seals a non-empty buffer')
            elif nm == 'encrypt':
                if not term_has(buf, lambda x: x[0] == 'call' and x[1].endswith('::from') and _uncap(x[2][0]) == ('param', 3)) and _uncap(buf) != ('param', 3) and \
                        not term_has(buf, lambda x: x == ('param', 3)):
                    bad.append('encrypt does not seal the plaintext')
            # Ok only behind the success of the operation
            oks = [(sb, si) for sb, si, st in b.statements() if st['s'] == 'assign' and st['lhs']['l'] == 0 and not st['lhs'].get('p') and st['rv']['r'] == 'agg' and st['rv'].get('variant') == 'Ok']
            succ = [(s_, t_) for s_, t_, cond, lab in switch_edges(b, fx, og) if lab in ('Continue', 'Ok') and cond[0] == 'discr' and term_has(cond, lambda x: x[0] == 'call' and len(x) > 3 and x[3] == bb)]
            if not oks or not succ or not all(P.every_path_passes(None, o, via_edges=succ, from_entry=True) for o in oks):
                bad.append('Ok is reachable without the success of %s' % op)
            if nm == 'decrypt':
                tr = [(tb, tt) for tb, tt in b.calls() if callee_res(tt).endswith('::truncate')]
                if len(tr) != 1 or not term_has(og.of_operand(tr[0][1]['args'][1], tr[0][0], 'term'), lambda x: x[0] == 'call' and x[1].endswith('::len') and
                                                term_has(x, lambda y: y[0] == 'call' and y[1].endswith('open_in_place'))):
                    bad.append('the result is not cut to the length of the plaintext open_in_place returned')
        rep.check(not bad, 'R16.13', 'aes_gcm_gmac::%s' % nm, 'key, nonce, AAD, buffer and success edge as specified',
                  'aes_gcm_gmac::%s is not the AES-GCM/GMAC operation the decode functions rely on (%s)' % (nm, '; '.join(bad[:3])), b.where())
    adv = [b for b in fx.bodies if b.name == 'advance' and 'TrivialNonceSequence' in (b.impl_self or b.key)]
    ok = False
    if len(adv) == 1:
        og = Origins(adv[0], summaries=False)
        ok = any(callee_res(t).endswith('assume_unique_for_key') and term_has(og.of_operand(t['args'][0], bb, 'term'), lambda x: x[0] == 'field' and x[1] == 'iv' and x[2] == ('param', 1))
                 for bb, t in adv[0].calls())
    rep.check(ok, 'R16.13', 'TrivialNonceSequence::advance', 'Nonce = self.iv', 'the nonce handed to ring is not the initialisation vector the sequence was made from', adv[0].where() if adv else '')


def rule_16_14(rep, fx):
    """Key material is what decides whose traffic decodes. A registration that is refused ("handle already associated") must not have changed it (after seed C16f)."""
    CB = 'security::cryptographic::cryptographic_builtin::CryptographicBuiltin::'
    rep.rule('R16.14', 'a refused registration leaves the key store as it was: in every CryptographicBuiltin method that inserts into one of the key-material maps '
                       '(common_encode_key_materials, receiver_specific_encode_key_materials, decode_key_materials) and can answer Err afterwards, each path from the insert to an Err '
                       'puts the displaced value back (insert(same map, same handle, the Some(..) the first insert returned)); a method that tests before it inserts '
                       '(contains_key / entry) has no such path')
    MAPS = ('common_encode_key_materials', 'receiver_specific_encode_key_materials', 'decode_key_materials')
    n = 0
    n_fn = 0
    for b in fx.bodies:
        if not b.key.startswith(CB) or b.kind not in ('fn', 'assoc_fn'):
            continue
        og = None
        ins = []
        for bb, t in b.calls():
            if callee_res(t).endswith('HashMap::<K, V, S, A>::insert') or (callee_res(t).endswith('::insert') and 'Map' in callee_res(t)):
                og = og or Origins(b, summaries=False)
                m = og.of_operand(t['args'][0], bb, 'term')
                which = [x for x in MAPS if term_has(m, lambda y: y[0] == 'field' and y[1] == x)]
                if which:
                    ins.append((bb, t, which[0]))
        if not ins:
            continue
        n_fn += 1
        P = Pos(b)
        errs = [(sb, si) for sb, si, st in b.statements() if st['s'] == 'assign' and st['lhs']['l'] == 0 and not st['lhs'].get('p') and st['rv']['r'] == 'agg' and st['rv'].get('variant') == 'Err']
        for bb, t, which in ins:
            v = og.of_operand(t['args'][2], bb, 'term')
            if term_has(v, lambda y: y[0] == 'variant' and y[1] == 'Some' and term_has(y, lambda z: z[0] == 'call' and z[1].endswith('::insert'))):
                continue            # this IS a put-back
            later_errs = [e for e in errs if P.can_reach((bb, 'term'), e)]
            if not later_errs:
                continue
            n += 1
            backs = []
            for b2, t2, w2 in ins:
                if b2 == bb or w2 != which:
                    continue
                v2 = og.of_operand(t2['args'][2], b2, 'term')
                k1 = og.of_operand(t['args'][1], bb, 'term')
                k2 = og.of_operand(t2['args'][1], b2, 'term')
                if k1 == k2 and term_has(v2, lambda y: y[0] == 'variant' and y[1] == 'Some' and term_has(y, lambda z: z[0] == 'call' and z[1].endswith('::insert') and len(z) > 3 and z[3] == bb)):
                    backs.append((b2, 'term'))
            ok = bool(backs) and not any(P.can_reach((bb, 'term'), e, avoid_pos=backs) for e in later_errs)
            rep.check(ok, 'R16.14', '%s/%s/refusal-restores' % (b.key[len(CB):], which), 'insert .. Err => the displaced key material is put back first',
                      '%s answers Err after it has already replaced the key material stored for the handle in %s, without putting the old one back: a refused (repeated or foreign) '
                      'registration changes which traffic decodes - what was produced under the refused key material is accepted, the registered sender is locked out' %
                      (b.key[len(CB):], which), b.where(bb))
    # (a method that tests before it inserts has no insert-then-refuse path and no instance; what must not disappear are the methods that fill the maps)
    rep.floor('R16.14', n_fn, 3, 'CryptographicBuiltin methods that insert into the key-material maps')


SERIALISERS = ('write_to_vec', 'write_to_vec_with_ctx', 'write_to_buffer', 'write_to_buffer_with_ctx', 'write_to_stream', 'write_to_stream_with_ctx', 'to_bytes', 'serialize',
               'to_vec_with_ctx', 'write_to', 'to_pl_cdr_bytes', 'serialize_to_bytes')


def rule_16_15(rep, fx):
    """What is authenticated is what arrived (added after seed C16g: the GMAC of a signed submessage checked over `encoded_submessage.write_to_vec()`; re-serialising normalises
    what the parser ignores (DATA extraFlags), so a submessage altered there still verified)."""
    rep.rule('R16.15', 'the MAC is checked over the received bytes: the data handed to validate_mac in decode_submessage, decode_rtps_message and decode_serialized_payload (closures '
                       'included) derives from the input (its original_bytes / crypto content / the byte buffer) and from no serialisation of a parsed structure (write_to_vec and '
                       'the like): a parser is not injective, so authenticating its re-serialised output accepts altered input')
    n = 0
    for name in ('decode_submessage', 'decode_rtps_message', 'decode_serialized_payload'):
        bs = [b for b in fx.bodies if b.name == name and 'cryptographic_builtin::crypto_transform' in b.key and b.kind in ('fn', 'assoc_fn')]
        if len(bs) != 1:
            raise CheckBroken('R16.15: %s not found uniquely (%d)' % (name, len(bs)))
        for b in [bs[0]] + list(fx.closures_of(bs[0])):
            og = None
            for bb, t in b.calls():
                if not callee_res(t).endswith('::validate_mac') or len(t['args']) < 3:
                    continue
                og = og or Origins(b, summaries=False)
                rep.analysed(b)
                n += 1
                data = og.of_operand(t['args'][2], bb, 'term')
                if b.kind == 'closure':
                    data = resolve_captures(fx, b, data)
                ser = sorted(set(x[1].rsplit('::', 1)[-1] for x in _subterms16(data) if x[0] == 'call' and x[1].rsplit('::', 1)[-1] in SERIALISERS))
                from_input = term_has(data, lambda x: x == ('param', 2)) or term_has(data, lambda x: x[0] == 'field' and x[1] == 'original_bytes')
                rep.check(not ser and from_input, 'R16.15', '%s/validate_mac#%d/received-bytes' % (name, n), 'MAC input derives from the received bytes',
                          '%s checks the MAC over %s: not the bytes that arrived%s; an alteration that the parser ignores or normalises is authenticated'
                          % (name, term_str(data)[:120], (' (re-serialised by %s)' % ', '.join(ser)) if ser else ''), b.where(bb))
    rep.floor('R16.15', n, 3, 'validate_mac calls in the three decode functions')


def _subterms16(t):
    out = [t]
    if isinstance(t, tuple):
        for x in t[1:]:
            if isinstance(x, tuple):
                if x and isinstance(x[0], str):
                    out.extend(_subterms16(x))
                else:
                    for y in x:
                        if isinstance(y, tuple):
                            out.extend(_subterms16(y))
    return out
