"""Every RTPS message the Writer builds goes out (shared by C04 / C05 / C02): the result of MessageBuilder::add_header_and_build reaches send_message_to_readers on every path,
directly or through a list that is sent item by item."""
from rdv.core import Origins, Pos, call_matches, callee_res, natural_loops, switch_edges, term_has

W = 'rtps::writer::Writer::'


def _from_call(term, bb):
    return term_has(term, lambda x: x[0] == 'call' and x[1].endswith('add_header_and_build') and len(x) > 3 and x[3] == bb)


def run_rule(rep, fx, rid, floor=7):
    rep.rule(rid, 'every message built goes out: in rtps::Writer the result of each MessageBuilder::add_header_and_build that carries DATA, DATAFRAG or GAP, or is queued on a '
                  'send list, is handed to send_message_to_readers on every path to the '
                  'return, either directly or by a push onto a list of which every item is sent (the list is iterated on every path after the push and each item of the iteration '
                  'reaches send_message_to_readers before the next)')
    n = 0
    for b in fx.bodies:
        if not b.key.startswith(W):
            continue
        builds = [(bb, t) for bb, t in b.calls() if call_matches(t, 'MessageBuilder::add_header_and_build')]
        if not builds:
            continue
        rep.analysed(b)
        og = Origins(b, summaries=False)
        P = Pos(b)
        edges = list(switch_edges(b, fx, og))
        loops = natural_loops(b)
        for bb, t in builds:
            chain = og.of_operand(t['args'][0], bb, 'term')
            carries = term_has(chain, lambda x: x[0] == 'call' and x[1].rsplit('::', 1)[-1] in ('data_msg', 'data_frag_msg', 'gap_msg', 'gap_msg_before'))
            queued = any(callee_res(ct).endswith('::push') and len(ct['args']) == 2 and _from_call(og.of_operand(ct['args'][1], cb, 'term'), bb) for cb, ct in b.calls())
            if not carries and not queued:
                continue            # a HEARTBEAT-only message sent at once: when it may be withheld is R02.3
            n += 1
            direct, pushes = [], []
            for cb, ct in b.calls():
                if cb == bb:
                    continue
                cr = callee_res(ct)
                if call_matches(ct, 'Writer::send_message_to_readers') and any(_from_call(og.of_operand(a, cb, 'term'), bb) for a in ct['args']):
                    direct.append((cb, 'term'))
                elif cr.endswith('::push') and len(ct['args']) == 2 and _from_call(og.of_operand(ct['args'][1], cb, 'term'), bb):
                    pushes.append((cb, ct))
            ok = True
            why = ''
            cons = list(direct)
            for pb, pt in pushes:
                lst = og.of_operand(pt['args'][0], pb, 'term')
                # the loop that drains this list: into_iter(list) .. next .. Some(x) .. send(x)
                drained = False
                for lp in loops:
                    blocks = lp[1]
                    nxt = [(nb, nt) for nb, nt in b.calls() if nb in blocks and callee_res(nt).endswith('::next')]
                    if not nxt:
                        continue
                    nb = nxt[0][0]
                    it = og.of_operand(nxt[0][1]['args'][0], nb, 'term')
                    # same list object: the allocation site (Vec::new / with_capacity / vec! at one block) occurs in both provenance terms
                    if not (_alloc_sites(lst) & _alloc_sites(it)):
                        continue
                    some = [(s_, t_) for s_, t_, cond, lab in edges if lab == 'Some' and s_ in blocks and cond[0] == 'discr' and cond[1][0] == 'call' and cond[1][1].endswith('::next')]
                    snd = [(sb, 'term') for sb, st_ in b.calls() if sb in blocks and call_matches(st_, 'Writer::send_message_to_readers') and
                           any(term_has(og.of_operand(a, sb, 'term'), lambda y: y[0] == 'variant' and y[1] == 'Some') for a in st_['args'])]
                    if not some or not snd:
                        continue
                    if any(P.can_reach((t_, 0), (nb, 'term'), avoid_pos=snd) for s_, t_ in some):
                        why = 'an item of the list is skipped by the sending loop'
                        continue
                    # after the push the loop is reached on every path to the return
                    if all(not P.can_reach((pb, 'term'), (r, 'term'), avoid_pos=[(nb, 'term')]) for r in b.return_blocks()):
                        drained = True
                if drained:
                    cons.append((pb, 'term'))
                else:
                    why = why or 'pushed onto a list that is not sent item by item on every path'
            if not cons:
                ok = False
                why = why or 'the message is neither sent nor queued'
            else:
                for r in b.return_blocks():
                    if P.can_reach((bb, 'term'), (r, 'term'), avoid_pos=cons):
                        ok = False
                        why = why or 'a path from the build to the return neither sends nor queues it'
            rep.check(ok, rid, '%s/built-message#%d' % (b.key.rsplit('::', 1)[-1], [x for x, _ in builds].index(bb) + 1), 'built => sent on every path',
                      '%s builds an RTPS message that does not go out on every path (%s): the DATA / DATAFRAG / HEARTBEAT / GAP it carries is silently never transmitted' %
                      (b.key.rsplit('::', 1)[-1], why), b.where(bb))
    rep.floor(rid, n, floor, 'add_header_and_build calls in rtps::Writer')


def _alloc_sites(t):
    out = set()

    def rec(x):
        if isinstance(x, tuple):
            if len(x) > 3 and x[0] == 'call' and x[1].startswith(('std::vec::Vec', 'alloc::vec', 'std::collections::VecDeque', 'alloc::collections::vec_deque')) and x[1].rsplit('::', 1)[-1] in ('new', 'with_capacity', 'from_elem', 'into_vec'):
                out.add((x[1], x[3]))
            for y in x:
                rec(y)
    rec(t)
    return out
