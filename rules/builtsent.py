"""Every RTPS message the Writer builds goes out (shared by C04 / C05 / C02): the result of MessageBuilder::add_header_and_build reaches send_message_to_readers on every path,
directly or through a list that is sent item by item."""
from rdv.core import Origins, Pos, call_matches, callee_res, natural_loops, switch_edges, term_has

W = 'rtps::writer::Writer::'


def _from_call(term, bb):
    return term_has(term, lambda x: x[0] == 'call' and x[1].endswith('add_header_and_build') and len(x) > 3 and x[3] == bb)


def run_rule(rep, fx, rid, floor=7):
    rep.rule(rid, 'every message built goes out: in rtps::Writer the result of each MessageBuilder::add_header_and_build that carries DATA, DATAFRAG or GAP, or is queued on a '
                  'send list, is handed to send_message_to_readers on every path to the '
                  'return, either directly or by a push onto a list of which every item is sent (the list is iterated on every path after the push and each item of the iteration '
                  'reaches send_message_to_readers before the next)')
    n = 0
    for b in fx.bodies:
        if not b.key.startswith(W):
            continue
        builds = [(bb, t) for bb, t in b.calls() if call_matches(t, 'MessageBuilder::add_header_and_build')]
        if not builds:
            continue
        rep.analysed(b)
        og = Origins(b, summaries=False)
        P = Pos(b)
        edges = list(switch_edges(b, fx, og))
        loops = natural_loops(b)
        for bb, t in builds:
            chain = og.of_operand(t['args'][0], bb, 'term')
            carries = term_has(chain, lambda x: x[0] == 'call' and x[1].rsplit('::', 1)[-1] in ('data_msg', 'data_frag_msg', 'gap_msg', 'gap_msg_before'))
            queued = any(callee_res(ct).endswith('::push') and len(ct['args']) == 2 and _from_call(og.of_operand(ct['args'][1], cb, 'term'), bb) for cb, ct in b.calls())
            if not carries and not queued:
                continue            # a HEARTBEAT-only message sent at once: when it may be withheld is R02.3
            n += 1
            direct, pushes = [], []
            for cb, ct in b.calls():
                if cb == bb:
                    continue
                cr = callee_res(ct)
                if call_matches(ct, 'Writer::send_message_to_readers') and any(_from_call(og.of_operand(a, cb, 'term'), bb) for a in ct['args']):
                    direct.append((cb, 'term'))
                elif cr.endswith('::push') and len(ct['args']) == 2 and _from_call(og.of_operand(ct['args'][1], cb, 'term'), bb):
                    pushes.append((cb, ct))
            ok = True
            why = ''
            cons = list(direct)
            for pb, pt in pushes:
                lst = og.of_operand(pt['args'][0], pb, 'term')
                # the loop that drains this list: into_iter(list) .. next .. Some(x) .. send(x)
                drained = False
                for lp in loops:
                    blocks = lp[1]
                    nxt = [(nb, nt) for nb, nt in b.calls() if nb in blocks and callee_res(nt).endswith('::next')]
                    if not nxt:
                        continue
                    nb = nxt[0][0]
                    it = og.of_operand(nxt[0][1]['args'][0], nb, 'term')
                    # same list object: the allocation site (Vec::new / with_capacity / vec! at one block) occurs in both provenance terms
                    if not (_alloc_sites(lst) & _alloc_sites(it)):
                        continue
                    some = [(s_, t_) for s_, t_, cond, lab in edges if lab == 'Some' and s_ in blocks and cond[0] == 'discr' and cond[1][0] == 'call' and cond[1][1].endswith('::next')]
                    snd = [(sb, 'term') for sb, st_ in b.calls() if sb in blocks and call_matches(st_, 'Writer::send_message_to_readers') and
                           any(term_has(og.of_operand(a, sb, 'term'), lambda y: y[0] == 'variant' and y[1] == 'Some') for a in st_['args'])]
                    if not some or not snd:
                        continue
                    if any(P.can_reach((t_, 0), (nb, 'term'), avoid_pos=snd) for s_, t_ in some):
                        why = 'an item of the list is skipped by the sending loop'
                        continue
                    # after the push the loop is reached on every path to the return
                    if all(not P.can_reach((pb, 'term'), (r, 'term'), avoid_pos=[(nb, 'term')]) for r in b.return_blocks()):
                        drained = True
                if drained:
                    cons.append((pb, 'term'))
                else:
                    why = why or 'pushed onto a list that is not sent item by item on every path'
            if not cons:
                ok = False
                why = why or 'the message is neither sent nor queued'
            else:
                for r in b.return_blocks():
                    if P.can_reach((bb, 'term'), (r, 'term'), avoid_pos=cons):
                        ok = False
                        why = why or 'a path from the build to the return neither sends nor queues it'
            rep.check(ok, rid, '%s/built-message#%d' % (b.key.rsplit('::', 1)[-1], [x for x, _ in builds].index(bb) + 1), 'built => sent on every path',
                      '%s builds an RTPS message that does not go out on every path (%s): the DATA / DATAFRAG / HEARTBEAT / GAP it carries is silently never transmitted' %
                      (b.key.rsplit('::', 1)[-1], why), b.where(bb))
    rep.floor(rid, n, floor, 'add_header_and_build calls in rtps::Writer')


def _alloc_sites(t):
    out = set()

    def rec(x):
        if isinstance(x, tuple):
            if len(x) > 3 and x[0] == 'call' and x[1].startswith(('std::vec::Vec', 'alloc::vec', 'std::collections::VecDeque', 'alloc::collections::vec_deque')) and x[1].rsplit('::', 1)[-1] in ('new', 'with_capacity', 'from_elem', 'into_vec'):
                out.add((x[1], x[3]))
            for y in x:
                rec(y)
    rec(t)
    return out


def run_wire(rep, fx, rid):
    """The last link: what send_message_to_readers is handed goes onto the wire, to every locator of the mode chosen for every reader (mutation round 4: deleting the
    send_to_locator call left every check and the suite green)."""
    from rdv.core import term_str
    rep.rule(rid, 'onto the wire: Writer::send_message_to_readers serialises the (encoded) message it was given under the writer\'s endianness and, for every reader of the '
                  'iteration, walks the unicast or the multicast locator list - unless the reader has neither kind of UDP locator - and hands every locator of that list with that '
                  'buffer to UDPSender::send_to_locator, except those a send already went to (already_sent_to.contains(loc) true), which it records after sending')
    b = fx.find(W + 'send_message_to_readers')
    rep.analysed(b)
    og = Origins(b, summaries=False)
    P = Pos(b)
    edges = list(switch_edges(b, fx, og))
    loops = natural_loops(b)
    bad = []
    sends = []
    for bb, t in b.calls():
        if callee_res(t).endswith('UDPSender::send_to_locator'):
            buf = og.of_operand(t['args'][1], bb, 'term')
            loc = og.of_operand(t['args'][2], bb, 'term')
            okb = term_has(buf, lambda x: x[0] == 'call' and x[1].endswith('write_to_vec_with_ctx') and term_has(x, lambda y: y[0] == 'field' and y[1] == 'endianness'))
            okl = term_has(loc, lambda x: x[0] == 'variant' and x[1] == 'Some') and term_has(loc, lambda x: x[0] == 'call' and x[1].endswith('::next'))
            if not okb:
                bad.append('what is sent is %s, not the serialised message' % term_str(buf)[:50])
            if okb and okl:
                sends.append(bb)
    # the message serialised is the one handed in (or its encoding)
    ser = [(bb, t) for bb, t in b.calls() if callee_res(t).endswith('write_to_vec_with_ctx')]
    if not ser or not all(term_has(og.of_operand(t['args'][0], bb, 'term'), lambda x: x == ('param', 3) or (x[0] == 'call' and x[1].endswith('security_encode'))) for bb, t in ser):
        bad.append('the buffer is not the serialisation of the message handed in')
    # locator loops
    loc_loops = []
    for lp in loops:
        blocks = lp[1]
        nxt = [(nb, nt) for nb, nt in b.calls() if nb in blocks and callee_res(nt).endswith('::next') and
               term_has(og.of_operand(nt['args'][0], nb, 'term'), lambda x: x[0] == 'field' and x[1] in ('unicast_locator_list', 'multicast_locator_list'))]
        # innermost loop over a locator list: its own next, not the find(..) in the header of the readers loop
        nxt = [(nb, nt) for nb, nt in nxt if not any(nb in l2[1] and len(l2[1]) < len(blocks) for l2 in loops if l2 is not lp)]
        if not nxt:
            continue
        nb = nxt[0][0]
        some = [(s_, t_) for s_, t_, cond, lab in edges if lab == 'Some' and s_ in blocks and cond[0] == 'discr' and cond[1][0] == 'call' and cond[1][1].endswith('::next') and len(cond[1]) > 3 and cond[1][3] == nb]
        if not some:
            continue
        loc_loops.append(nb)
        snd = [(sb, 'term') for sb in sends if sb in blocks]
        dup = [(s_, t_) for s_, t_, cond, lab in edges if s_ in blocks and lab is True and cond[0] == 'call' and cond[1].endswith('::contains')]
        if not snd:
            bad.append('a walk over a locator list sends nothing')
            continue
        for s_, t_ in some:
            if not P.every_path_passes((t_, 0), (nb, 'term'), via_pos=snd, via_edges=dup):
                bad.append('a locator of the list is skipped although nothing was sent to it yet')
        ins = [(ib, 'term') for ib, it in b.calls() if ib in blocks and callee_res(it).endswith('::insert')]
        for sb, _ in snd:
            if not ins or P.can_reach((sb, 'term'), (nb, 'term'), avoid_pos=ins):
                bad.append('a locator sent to is not recorded in already_sent_to')
    if len(loc_loops) < 2:
        bad.append('only %d walks over locator lists' % len(loc_loops))
    # every reader gets one of the walks unless it has no UDP locator of either kind
    rd = None
    for lp in loops:
        blocks = lp[1]
        if all(nb in blocks for nb in loc_loops) and loc_loops:
            nxt = [(nb, nt) for nb, nt in b.calls() if nb in blocks and callee_res(nt).endswith('::next') and nb not in loc_loops and
                   not term_has(og.of_operand(nt['args'][0], nb, 'term'), lambda x: x[0] == 'field' and x[1] in ('unicast_locator_list', 'multicast_locator_list'))]
            if nxt and (rd is None or len(blocks) < len(rd[1])):
                rd = (nxt[0][0], blocks)
    if rd is None:
        bad.append('no loop over the readers around the locator walks')
    else:
        rnb, blocks = rd
        some = [(s_, t_) for s_, t_, cond, lab in edges if lab == 'Some' and s_ in blocks and cond[0] == 'discr' and cond[1][0] == 'call' and cond[1][1].endswith('::next') and len(cond[1]) > 3 and cond[1][3] == rnb]
        for kind in ('unicast_locator_list', 'multicast_locator_list'):
            none_k = [(s_, t_) for s_, t_, cond, lab in edges if lab == 'None' and cond[0] == 'discr' and term_has(cond, lambda x: x[0] == 'call' and x[1].endswith('::find')) and
                      term_has(cond, lambda x: x[0] == 'field' and x[1] == kind)]
            for s_, t_ in some:
                if not P.every_path_passes((t_, 0), (rnb, 'term'), via_pos=[(nb, 'term') for nb in loc_loops], via_edges=none_k):
                    bad.append('a reader with a UDP locator in its %s can be passed over' % kind)
    rep.check(not bad, rid, 'send_message_to_readers/onto-the-wire', '%d walks over locator lists, each locator sent the serialised message once' % len(loc_loops),
              'Writer::send_message_to_readers does not put the message on the wire for every reader (%s): whatever the Writer builds - DATA, HEARTBEAT, GAP - silently never leaves '
              'the process' % '; '.join(sorted(set(bad))[:3]), b.where())


def run_reader_wire(rep, fx, rid, pre=''):
    """The same on the Reader's side: the ACKNACK / NACKFRAG message handed to send_*_to is the one that is serialised and sent to the locators handed in."""
    R = 'rtps::reader::Reader::'
    if not pre:
        rep.rule(rid, 'the request onto the wire: send_acknack_to / send_nackfrags_to add the submessage created from the AckNack / NackFrags they were given (after the INFO_DST) to '
                      'a message and hand it with their locator list to encode_and_send on every path; encode_and_send serialises that message (or its encoding) and hands the '
                      'bytes with that locator list to UDPSender::send_to_locator_list on every path (security: on every path on which the encoding succeeded)')
    for fn, pidx, what in (('send_acknack_to', 3, 'AckNack'), ('send_nackfrags_to', 3, 'NackFrag')):
        b = fx.find(R + fn)
        rep.analysed(b)
        og = Origins(b, summaries=False)
        P = Pos(b)
        adds = [(bb, t) for bb, t in b.calls() if callee_res(t).endswith('Message::add_submessage')]
        sub_ok = any(term_has(og.of_operand(t['args'][1], bb, 'term'), lambda x: x[0] == 'call' and x[1].endswith('create_submessage') and term_has(x, lambda y: y == ('param', pidx) or
                     (y[0] in ('variant', 'call') and term_has(y, lambda z: z == ('param', pidx))))) for bb, t in adds)
        snd = [(bb, 'term') for bb, t in b.calls() if callee_res(t).endswith('Reader::encode_and_send') and
               term_has(og.of_operand(t['args'][1], bb, 'term'), lambda x: x[0] == 'call' and x[1].endswith('Message::new') or x[0] == 'mutated') and
               _plainb(og.of_operand(t['args'][3], bb, 'term')) == ('param', 5)]
        ok = sub_ok and bool(snd) and all(P.every_path_passes(None, (r, 'term'), via_pos=snd, from_entry=True) for r in b.return_blocks()) and \
            all(P.can_reach((ab, 'term'), snd[0]) for ab, _ in adds)
        rep.check(ok, rid, '%s%s/message-sent' % (pre, fn), 'submessage of the %s given => message => encode_and_send(message, .., the locators given)' % what,
                  'Reader::%s does not put the %s it was given into the message it sends (or does not send it to the locators it was given) on every path: the request never leaves '
                  'the process' % (fn, what), b.where())
    e = fx.find(R + 'encode_and_send')
    rep.analysed(e)
    og = Origins(e, summaries=False)
    P = Pos(e)
    ser = [(bb, t) for bb, t in e.calls() if callee_res(t).endswith('write_to_vec_with_ctx')]
    okm = bool(ser) and all(term_has(og.of_operand(t['args'][0], bb, 'term'), lambda x: x == ('param', 2) or (x[0] == 'call' and x[1].endswith('security_encode'))) for bb, t in ser)
    snd = [(bb, 'term') for bb, t in e.calls() if callee_res(t).endswith('UDPSender::send_to_locator_list') and
           term_has(og.of_operand(t['args'][1], bb, 'term'), lambda x: x[0] == 'call' and x[1].endswith('write_to_vec_with_ctx')) and _plainb(og.of_operand(t['args'][2], bb, 'term')) == ('param', 4)]
    enc_fail = [(s_, t_) for s_, t_, cond, lab in switch_edges(e, fx, og) if lab == 'Err' and cond[0] == 'discr' and term_has(cond, lambda x: x[0] == 'call' and x[1].endswith('security_encode'))]
    ok = okm and bool(snd) and all(P.every_path_passes(None, (r, 'term'), via_pos=snd, via_edges=enc_fail, from_entry=True) for r in e.return_blocks())
    rep.check(ok, rid, '%sencode_and_send/onto-the-wire' % pre, 'bytes of the message => send_to_locator_list(bytes, the locators given)',
              'Reader::encode_and_send does not serialise the message it was given and send the bytes to the locator list it was given on every path: no ACKNACK ever reaches a Writer',
              e.where())


def _plainb(t):
    while isinstance(t, tuple) and t and t[0] in ('ref', 'deref', 'copy', 'move') and len(t) > 1 and isinstance(t[1], tuple):
        t = t[1]
    return t
