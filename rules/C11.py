"""C11  Matched-endpoint sets and their status counts track discovery exactly.

Who-may-write, pairing and guard rules (default configuration). Set equality with
"currently announced" over discovery histories is not decided.
"""
from rdv.core import (CheckBroken, Origins, Pos, call_matches, callee_res, infeasible_edges, norm_path, primary_edges,
                      strip_generics, switch_edges, term_has, term_leaves, term_str)

CONFIGS = ['default', 'security']
THOROUGH_CONFIGS = []
LEVEL = 'other'

SIDES = [
    dict(name='reader', ty='rtps::reader::Reader', map='matched_writers', total='writer_match_count_total', status='SubscriptionMatched',
         update='Reader::update_writer_proxy', add='Reader::matched_writer_update', remove_fn='Reader::remove_writer_proxy',
         lost='Reader::participant_lost', incompatible='RequestedIncompatibleQos',
         mutators={'rtps::reader::Reader::matched_writer_update': 'adds or updates one proxy',
                   'rtps::reader::Reader::remove_writer_proxy': 'removes one proxy',
                   'rtps::reader::Reader::with_mutable_writer_proxy': 'detaches a proxy while a worker runs and re-attaches it (net zero)'}),
    dict(name='writer', ty='rtps::writer::Writer', map='readers', total='matched_readers_count_total', status='PublicationMatched',
         update='Writer::update_reader_proxy', add='Writer::matched_reader_update', remove_fn='Writer::reader_lost',
         lost='Writer::participant_lost', incompatible='OfferedIncompatibleQos',
         mutators={'rtps::writer::Writer::matched_reader_update': 'adds or updates one proxy (entry API)',
                   'rtps::writer::Writer::matched_reader_remove': 'removes one proxy',
                   'rtps::writer::Writer::handle_repair_data_send': 'detaches a proxy while the repair worker runs and re-attaches it (net zero)',
                   'rtps::writer::Writer::handle_repair_frags_send': 'detaches a proxy while the repair worker runs and re-attaches it (net zero)'}),
]
MUTATING = ('insert', 'remove', 'entry', 'retain', 'clear', 'pop_first', 'pop_last', 'split_off', 'append', 'extract_if', 'remove_entry', 'drain')


def has_field(t, name):
    return term_has(t, lambda x: x[0] == 'field' and x[1] == name)


def run_side(rep, fx, S):
    ty = S['ty']
    bodies = [b for b in fx.bodies if b.key.startswith(ty + '::')]
    if not bodies:
        raise CheckBroken('no bodies of %s' % ty)
    # ------------------------------------------------------------ R11.1 totals monotone
    n_w = 0
    for b in bodies:
        og = None
        for bb, si, st in b.statements():
            if st['s'] != 'assign':
                continue
            pr = st['lhs'].get('p') or []
            if not (pr and isinstance(pr[-1], dict) and pr[-1].get('n') == S['total']):
                continue
            n_w += 1
            rep.analysed(b)
            og = og or Origins(b, summaries=True)
            P = Pos(b)
            v = og._rvalue(st['rv'], bb, si, 0)
            # value = (AddWithOverflow(total, c)).0 or Add(total, c)
            adds = [x for x in term_leaves(v) if x[0] == 'bin' and x[1].startswith('Add')]
            ok = False
            why = term_str(v)[:120]
            if adds:
                a = adds[0]
                ops = [a[2], a[3]]
                selfop = [o for o in ops if o[0] == 'field' and o[1] == S['total']]
                other = [o for o in ops if not (o[0] == 'field' and o[1] == S['total'])]
                if selfop and len(other) == 1:
                    c = other[0]
                    pos_edges = []
                    for s_, t_, cond, lab in switch_edges(b, fx, og):
                        if cond[0] == 'bin' and cond[1] == 'Gt' and cond[2] == c and cond[3] == ('const', 'int', 0) and lab is True:
                            pos_edges.append((s_, t_))
                        if cond[0] == 'bin' and cond[1] == 'Lt' and cond[3] == c and cond[2] == ('const', 'int', 0) and lab is True:
                            pos_edges.append((s_, t_))
                    ok = bool(pos_edges) and P.every_path_passes(None, (bb, si), via_edges=pos_edges, from_entry=True)
                    why = 'increment %s not under a dominating `> 0`' % term_str(c)
            rep.check(ok, 'R11.1', '%s/store#%d' % (b.key, n_w), '%s += c under c > 0' % S['total'],
                      '%s is written other than by adding a positive count (%s): the total must never decrease' % (S['total'], why), b.where(bb, si))
    rep.floor('R11.1', n_w, 1, 'stores to %s' % S['total'])

    # ------------------------------------------------------------ R11.3 who mutates the match map
    muts = {}
    for b in bodies:
        og = None
        for bb, t in b.calls():
            last = callee_res(t).rsplit('::', 1)[-1]
            if last not in MUTATING or not t['args']:
                continue
            og = og or Origins(b, summaries=True)
            r = og.of_operand(t['args'][0], bb, 'term')
            if r[0] == 'field' and r[1] == S['map'] and r[2] in (('param', 1),) or (r[0] == 'field' and r[1] == S['map'] and term_has(r[2], lambda x: x[0] == 'param' and x[1] == 1)):
                key = b.key if b.kind != 'closure' else b.encl
                muts.setdefault(key, []).append((b, bb, last))
    for key in sorted(muts):
        ok = key in S['mutators']
        b, bb, last = muts[key][0]
        rep.check(ok, 'R11.3', '%s/mutates-%s' % (key, S['map']), S['mutators'].get(key, ''),
                  '%s mutates the match map %s (%s) but is not one of the paired functions that also maintain counts and statuses' % (key, S['map'], last), b.where(bb))
    rep.floor('R11.3', len(muts), len(S['mutators']), 'functions mutating %s' % S['map'])

    # ------------------------------------------------------------ R11.2 status constructions
    n_st = 0
    for b in bodies:
        og = None
        for bb, si, st in b.statements():
            if not (st['s'] == 'assign' and st['rv']['r'] == 'agg' and st['rv'].get('variant') == S['status']):
                continue
            n_st += 1
            rep.analysed(b)
            og = og or Origins(b, summaries=True)
            P = Pos(b)
            fields = st['rv']['fields']
            cur = og.of_operand(st['rv']['ops'][fields.index('current')], bb, si)
            tot = og.of_operand(st['rv']['ops'][fields.index('total')], bb, si)
            lens = [x for x in term_leaves(cur) if x[0] == 'call' and x[1].endswith('::len') and has_field(x, S['map'])]
            ok_cur = bool(lens)
            ok_tot = has_field(tot, S['total'])
            # the len() is evaluated after the mutation of this path
            mut_calls = [(mb, 'term') for mb, t in b.calls() if call_matches(t, S['add'], 'Writer::matched_reader_remove') or
                         (callee_res(t).rsplit('::', 1)[-1] in ('remove', 'insert') and t['args'] and has_field(og.of_operand(t['args'][0], mb, 'term'), S['map']))]
            after = ok_cur and bool(mut_calls) and all(P.every_path_passes(None, (x[3], 'term'), via_pos=mut_calls, from_entry=True) for x in lens)
            rep.check(ok_cur and after, 'R11.2', '%s/status#%d/current' % (b.key, n_st), 'current = %s.len() evaluated after the mutation' % S['map'],
                      'a %s status reports a current count that is not the size of %s after the change' % (S['status'], S['map']), b.where(bb, si))
            rep.check(ok_tot, 'R11.2', '%s/status#%d/total' % (b.key, n_st), 'total = %s' % S['total'],
                      'a %s status reports a total that is not %s' % (S['status'], S['total']), b.where(bb, si))
            # the count changes agree: removal => current change -1 and total change 0; addition => both the same positive c
            def cwc(term):
                for x in term_leaves(term):
                    if x[0] == 'call' and x[1].endswith('CountWithChange::new'):
                        return [x]
                    if x[0] == 'agg' and str(x[1]).endswith('CountWithChange') and len(x[2]) == 2:
                        return [('call', 'CountWithChange::new', tuple(x[2]), -1)]
                return []
            cur_args = cwc(cur)
            tot_args = cwc(tot)
            rep.check(bool(cur_args) and bool(tot_args), 'R11.2', '%s/status#%d/shape' % (b.key, n_st), 'counts built by CountWithChange::new(count, change)',
                      'the counts of a %s status are not built by CountWithChange::new(count, change)' % S['status'], b.where(bb, si))
            if cur_args and tot_args:
                cc, tc = cur_args[0][2][1], tot_args[0][2][1]
                ok_ch = (cc == ('const', 'int', -1) and tc == ('const', 'int', 0)) or (cc == tc and cc[0] != 'const')
                rep.check(ok_ch, 'R11.2', '%s/status#%d/changes' % (b.key, n_st), 'count changes agree (%s / %s)' % (term_str(cc), term_str(tc)),
                          'the count changes of a %s status do not agree (current %s, total %s)' % (S['status'], term_str(cc), term_str(tc)), b.where(bb, si))
            # a removal status is sent only if something was removed: under contains_key(map, k) / remove(..) is Some with k the removed key
            if cur_args and cur_args[0][2][1] == ('const', 'int', -1):
                rm = []
                for mb, t in b.calls():
                    if callee_res(t).rsplit('::', 1)[-1] == 'remove' and has_field(og.of_operand(t['args'][0], mb, 'term'), S['map']):
                        rm.append(og.of_operand(t['args'][1], mb, 'term'))
                    if call_matches(t, 'Writer::matched_reader_remove'):
                        rm.append(og.of_operand(t['args'][1], mb, 'term'))
                guards = []
                for s_, t_, cond, lab in switch_edges(b, fx, og):
                    if cond[0] == 'call' and cond[1].endswith('::contains_key') and has_field(cond[2][0], S['map']) and lab is True and cond[2][1] in rm:
                        guards.append((s_, t_))
                    if cond[0] == 'discr' and lab == 'Some' and cond[1][0] == 'call' and cond[1][1].endswith('::remove') and has_field(cond[1], S['map']):
                        guards.append((s_, t_))
                    if cond[0] == 'call' and cond[1].endswith(('Option::is_some', 'Option::is_none')) and lab is cond[1].endswith('is_some') \
                            and cond[2][0][0] == 'call' and cond[2][0][1].endswith('::remove') and has_field(cond[2][0], S['map']):
                        guards.append((s_, t_))
                ok_g = bool(guards) and P.every_path_passes(None, (bb, si), via_edges=guards, from_entry=True)
                rep.check(ok_g, 'R11.2', '%s/status#%d/only-if-removed' % (b.key, n_st), 'unmatch status only when the removed key was in the map',
                          'an unmatch (%s, -1) status can be sent for an endpoint that was not in %s (guard is not a membership test of the removed key): '
                          'counts drift from the set' % (S['status'], S['map']), b.where(bb, si))
                # removal is followed by the status on every path (within the guarded region)
                for s_, t_ in guards:
                    for r in b.return_blocks():
                        if P.can_reach((t_, 0), (r, 'term'), avoid_pos=[(bb, si)]):
                            rep.violation('R11.2', '%s/status#%d/always-sent' % (b.key, n_st), 'a removal can complete without the unmatch status being sent', b.where(bb, si))
    rep.floor('R11.2', n_st, 2, '%s constructions' % S['status'])

    # ------------------------------------------------------------ R11.4 incompatible => no insert
    ub = fx.find(S['update'])
    rep.analysed(ub)
    og = Origins(ub, summaries=True)
    P = Pos(ub)
    edges = primary_edges(ub, list(switch_edges(ub, fx, og)))
    none_e = [(s_, t_) for s_, t_, cond, lab in edges if lab == 'None' and term_has(cond, lambda x: x[0] == 'call' and x[1].endswith('compliance_failure_wrt'))]
    some_e = [(s_, t_) for s_, t_, cond, lab in edges if lab == 'Some' and term_has(cond, lambda x: x[0] == 'call' and x[1].endswith('compliance_failure_wrt'))]
    adds = [(bb, 'term') for bb, t in ub.calls() if call_matches(t, S['add'])]
    ok = bool(none_e) and bool(adds) and all(P.every_path_passes(None, a, via_edges=none_e, from_entry=True) for a in adds)
    rep.check(ok, 'R11.4', '%s/match-only-if-compatible' % ub.key, 'proxy added only on compliance_failure_wrt(..) == None',
              'a remote endpoint can be added to the match set although the QoS compatibility check did not return None', ub.where())
    inc = [(bb, si) for bb, si, st in ub.statements() if st['s'] == 'assign' and st['rv']['r'] == 'agg' and st['rv'].get('variant') == S['incompatible']]
    matched = [(bb, si) for bb, si, st in ub.statements() if st['s'] == 'assign' and st['rv']['r'] == 'agg' and st['rv'].get('variant') == S['status']]
    ok = bool(some_e) and bool(inc)
    for s_, t_ in some_e:
        for r in ub.return_blocks():
            if P.can_reach((t_, 0), (r, 'term'), avoid_pos=inc):
                ok = False
        for m in matched + adds:
            if P.can_reach((t_, 0), m):
                ok = False
    rep.check(ok, 'R11.4', '%s/incompatible-event' % ub.key, 'incompatible QoS => %s status and no match' % S['incompatible'],
              'an incompatible endpoint does not always produce a %s status, or can still produce a match' % S['incompatible'], ub.where())
    # a status for an added proxy is sent on every path where the count changed (c > 0)
    pos_edges = [(s_, t_) for s_, t_, cond, lab in switch_edges(ub, fx, og) if cond[0] == 'bin' and cond[1] == 'Gt' and cond[3] == ('const', 'int', 0) and lab is True]
    ok = bool(pos_edges) and bool(matched)
    for s_, t_ in pos_edges:
        for r in ub.return_blocks():
            if P.can_reach((t_, 0), (r, 'term'), avoid_pos=matched):
                ok = False
    rep.check(ok, 'R11.4', '%s/matched-event' % ub.key, 'a new match always produces a %s status' % S['status'],
              'a new match (count change > 0) does not always produce a %s status' % S['status'], ub.where())

    # ------------------------------------------------------------ R11.5 participant lost
    lb = fx.find(S['lost'])
    rep.analysed(lb)
    og = Origins(lb, summaries=True)
    rng = [(bb, t) for bb, t in lb.calls() if callee_res(t).endswith('::range') and has_field(og.of_operand(t['args'][0], bb, 'term'), S['map'])]
    ok = bool(rng) and all(term_has(og.of_operand(t['args'][1], bb, 'term'), lambda x: x[0] == 'call' and x[1].endswith('GuidPrefix::range') and x[2][0] == ('param', 2)) for bb, t in rng)
    rm = [(bb, t) for bb, t in lb.calls() if call_matches(t, S['remove_fn'])]
    ok2 = bool(rm) and all(term_has(og.of_operand(t['args'][1], bb, 'term'), lambda x: x[0] == 'call' and x[1].endswith('::next')) for bb, t in rm)
    # the loop runs over the whole collected list: leaves only on next() == None
    rep.check(ok and ok2, 'R11.5', '%s/all-endpoints' % lb.key, 'every key in %s.range(prefix.range()) is removed through %s' % (S['map'], S['remove_fn']),
              'participant_lost does not remove every matched endpoint of the lost participant through %s' % S['remove_fn'], lb.where())
    if rm:
        P = Pos(lb)
        nxt = [bb for bb, t in lb.calls() if callee_res(t).endswith('::next')]
        some = [(s_, t_) for s_, t_, cond, lab in switch_edges(lb, fx, og) if lab == 'Some' and term_has(cond, lambda x: x[0] == 'call' and x[1].endswith('::next'))]
        ok3 = bool(some)
        for s_, t_ in some:
            for nb in nxt:
                if P.can_reach((t_, 0), (nb, 'term'), avoid_pos=[(bb, 'term') for bb, _t in rm]):
                    ok3 = False
        rep.check(ok3, 'R11.5', '%s/each-element' % lb.key, 'each listed endpoint is removed before the next one is fetched',
                  'an endpoint of the lost participant can be skipped without being removed', lb.where())


def run(rep, facts, tier):
    fx = facts['default']
    rep.explanation = ('Who-may-write, pairing and guard rules on rtps::Reader / rtps::Writer: totals only grow; the current count of every matched status is the size of the '
                       'match map after the change; the maps are mutated only by the paired functions; an unmatch status is sent only for a key that was in the map; '
                       'an incompatible endpoint yields the incompatible-QoS status and no match; participant loss removes every endpoint of that participant and the event loop '
                       'forwards losses to every local reader and writer.')
    rep.assume('a remote endpoint keeps the QoS it was announced with (as in the property statement)', 'set equality with "currently announced" over histories is not decided')
    rep.rule('R11.1', 'the total-match counters are written only as total += c under a dominating c > 0')
    rep.rule('R11.2', 'every Subscription/PublicationMatched status takes current from len() of the match map after the mutation of that path and total from the monotone counter; '
                      'count changes agree; an unmatch status is sent only when the removed key was in the map, and always then')
    rep.rule('R11.3', 'the match maps are mutated only in the paired add / remove / detach-reattach functions')
    rep.rule('R11.4', 'a proxy is added only on compliance_failure_wrt(..) == None; the Some arm sends the incompatible-QoS status and no match; a new match always sends the matched status')
    rep.rule('R11.5', 'participant_lost removes every key of range(prefix.range()); DPEventLoop forwards participant / writer / reader loss to every local reader and writer')
    for S in SIDES:
        run_side(rep, fx, S)
    # detach / re-attach helpers: the removed proxy is re-inserted under its own key on every path of the Some arm
    for key, mp in (('rtps::reader::Reader::with_mutable_writer_proxy', 'matched_writers'), ('rtps::writer::Writer::handle_repair_data_send', 'readers'),
                    ('rtps::writer::Writer::handle_repair_frags_send', 'readers')):
        wm = fx.find(key)
        rep.analysed(wm)
        og = Origins(wm, summaries=True)
        P = Pos(wm)
        some = [(s_, t_) for s_, t_, cond, lab in primary_edges(wm, list(switch_edges(wm, fx, og))) if lab == 'Some' and cond[0] == 'discr' and cond[1][0] == 'call' and cond[1][1].endswith('::remove')]
        ins = [(bb, 'term') for bb, t in wm.calls() if callee_res(t).endswith('::insert') and has_field(og.of_operand(t['args'][0], bb, 'term'), mp)]
        ok = bool(some) and bool(ins)
        for s_, t_ in some:
            for r in wm.return_blocks():
                if P.can_reach((t_, 0), (r, 'term'), avoid_pos=ins):
                    ok = False
        keyok = False
        for bb, t in wm.calls():
            if callee_res(t).endswith('::insert') and has_field(og.of_operand(t['args'][0], bb, 'term'), mp):
                k = og.of_operand(t['args'][1], bb, 'term')
                v = og.of_operand(t['args'][2], bb, 'term')
                keyok = (k == ('param', 2) or (k[0] == 'field' and k[1] in ('remote_reader_guid', 'remote_writer_guid'))) and \
                    term_has(v, lambda x: x[0] == 'call' and x[1].endswith('::remove'))
        rep.check(ok and keyok, 'R11.3', '%s/net-zero' % key.rsplit('::', 1)[-1], 'detached proxy re-inserted under its own key on every path',
                  '%s can return without re-inserting the proxy it removed (the match set would silently shrink)' % key.rsplit('::', 1)[-1], wm.where())
    # event loop forwarding
    ev = 'rtps::dp_event_loop::DPEventLoop::'
    for fn, coll, callee in (('remote_participant_lost', 'writers', 'Writer::participant_lost'), ('remote_participant_lost', 'available_readers', 'Reader::participant_lost'),
                             ('remote_writer_lost', 'available_readers', 'Reader::remove_writer_proxy'), ('remote_reader_lost', 'writers', 'Writer::reader_lost')):
        b = fx.find(ev + fn)
        rep.analysed(b)
        og = Origins(b, summaries=True)
        calls = [(bb, t) for bb, t in b.calls() if call_matches(t, callee)]
        ok = bool(calls)
        for bb, t in calls:
            recv = og.of_operand(t['args'][0], bb, 'term')
            ok = ok and term_has(recv, lambda x: x[0] == 'call' and x[1].endswith('::next')) and has_field(recv, coll) and \
                term_has(recv, lambda x: x[0] == 'call' and x[1].rsplit('::', 1)[-1] in ('values_mut', 'iter_mut'))
            ok = ok and og.of_operand(t['args'][1], bb, 'term') == ('param', 2)
        # no filter: the call is reached for every element (Some edge -> call without a skipping branch)
        if calls:
            P = Pos(b)
            some = [(s_, t_) for s_, t_, cond, lab in switch_edges(b, fx, og) if lab == 'Some' and term_has(cond, lambda x: x[0] == 'call' and x[1].endswith('::next')) and has_field(cond, coll)]
            nxt = [nb for nb, t in b.calls() if callee_res(t).endswith('::next') and has_field(og.of_operand(t['args'][0], nb, 'term'), coll)]
            for s_, t_ in some:
                for nb in nxt:
                    if P.can_reach((t_, 0), (nb, 'term'), avoid_pos=[(cb, 'term') for cb, _ in calls]):
                        ok = False
        rep.check(ok, 'R11.5', '%s/forwards-to-all-%s' % (fn, coll), '%s for every element of %s' % (callee, coll),
                  '%s does not forward the loss to every element of %s via %s' % (fn, coll, callee), b.where())
    if tier == 'thorough' and 'security' in facts:
        # the same rules on the security configuration (cfg arms differ in remove_writer_proxy / matched_reader_remove)
        for S in SIDES:
            run_side(rep, facts['security'], dict(S, name=S['name'] + '-security'))

    rule_11_7(rep, fx, facts)
    rule_11_8(rep, fx)
    for cfg in ('default', 'security'):
        if cfg in facts:
            rule_11_12(rep, facts[cfg], cfg)
    for cfg in ('default', 'security'):
        if cfg in facts:
            rule_11_13(rep, facts[cfg], cfg)
    rule_11_14(rep, fx)

    # the attic helper must move all endpoints of the participant (shared with C12 R12.7; added after seed C11e: an entry left behind in the attic is restored later in place
    # of / in addition to the live one, so a disposed endpoint is matched again and a lost participant's endpoint stays announced)
    from rules.C12 import rule_move_all
    rule_move_all(rep, fx, 'R11.9')

    # participant removal polarity and the one-participant-at-a-time discipline of the discovery database (decided under C12) are necessary for the matched set too
    from rdv import report as _report
    _report.borrow(rep, facts, tier, 'C12', {'R12.3': 'R11.10', 'R12.6': 'R11.11'})
    # the verdict that decides between "matched" and "incompatible-QoS event" is taken with the right roles (decided under C10; after seed C11g: the writer side asked
    # requested.compliance_failure_wrt(offered), so a Reliable writer refused a BestEffort reader and a BestEffort writer matched a Reliable one)
    _report.borrow(rep, facts, tier, 'C10', {'R10.3': 'R11.15'})

    # ------------------------------------------------------------ R11.6 crossed roles (shared lint, rdv/swaplint.py)
    from rdv import swaplint
    swaplint.run_rule(rep, facts['default'], 'R11.6', ['rtps::dp_event_loop', 'discovery::discovery_db', 'rtps::reader::Reader::update', 'rtps::writer::Writer::update', 'dds::statusevents'])


def rule_11_7(rep, fx, facts):
    """Which local endpoints hear about a discovered remote endpoint: all of them on the same topic, nobody else."""
    rep.rule('R11.7', 'topic routing of discovery: remote_writer_discovered offers the remote writer to every element of available_readers (unfiltered iteration) whose topic name equals the '
                      'announced topic name, with the proxy built from that announcement and its QoS; remote_reader_discovered likewise for every local writer; without security nothing '
                      'else decides')
    for nm, coll, upd, tdata, mk in (('remote_writer_discovered', 'available_readers', 'Reader::update_writer_proxy', 'publication_topic_data', 'from_discovered_writer_data'),
                                     ('remote_reader_discovered', 'writers', 'Writer::update_reader_proxy', 'subscription_topic_data', 'from_discovered_reader_data')):
        b = fx.find('rtps::dp_event_loop::DPEventLoop::' + nm)
        rep.analysed(b)
        og = Origins(b)
        P = Pos(b)
        edges = list(switch_edges(b, fx, og))
        ups = [(bb, t) for bb, t in b.calls() if callee_res(t).endswith(upd)]
        ok = len(ups) == 1
        why = '%d update call(s)' % len(ups)
        if ok:
            bb, t = ups[0]
            recv = og.of_operand(t['args'][0], bb, 'term')
            unfiltered = term_has(recv, lambda x: x[0] == 'call' and x[1].endswith('::next')) and term_has(recv, lambda x: x[0] == 'field' and x[1] == coll) and \
                not term_has(recv, lambda x: x[0] == 'call' and x[1].rsplit('::', 1)[-1] in ('filter', 'take', 'skip', 'find', 'take_while', 'filter_map', 'range', 'get', 'get_mut'))
            proxy = og.of_operand(t['args'][1], bb, 'term')
            qos = og.of_operand(t['args'][2], bb, 'term')
            from_ann = term_has(proxy, lambda x: x[0] == 'call' and x[1].endswith(mk) and x[2] and x[2][0] == ('param', 2)) and \
                term_has(qos, lambda x: x[0] == 'call' and x[1].endswith('::qos') and term_has(x, lambda y: y == ('param', 2)))
            guards = [(s_, t_) for s_, t_, cond, lab in edges if lab is True and cond[0] == 'call' and cond[1].endswith('::eq') and len(cond[2]) == 2 and
                      any(term_has(a, lambda x: x == ('param', 2)) and ('topic_name' in term_str(a)) for a in cond[2]) and
                      any(term_has(a, lambda x: x[0] == 'call' and x[1].endswith('::next')) and 'topic_name' in term_str(a) for a in cond[2])]
            guarded = bool(guards) and P.every_path_passes(None, (bb, 'term'), via_edges=guards, from_entry=True)
            # from the guard's True edge the update is reached before the next iteration on every path (edges that contradict a literal condition are infeasible)
            always = True
            nexts = [(nb, 'term') for nb, nt in b.calls() if callee_res(nt).endswith('::next')]
            dead = [(s2, t2) for s2, t2, c2, l2 in edges if c2 == ('const', 'int', 1) and l2 is False] + [(s2, t2) for s2, t2, c2, l2 in edges if c2 == ('const', 'int', 0) and l2 is True]
            if 'security' not in facts or True:
                for s_, t_ in guards:
                    for nx in nexts + [(r, 'term') for r in b.return_blocks()]:
                        if P.can_reach((t_, 0), nx, avoid_pos=[(bb, 'term')], avoid_edges=dead):
                            always = False
            ok = unfiltered and from_ann and guarded and always
            why = 'unfiltered iteration %s, proxy/QoS from the announcement %s, behind topic-name equality %s, nothing else decides %s' % (unfiltered, from_ann, guarded, always)
        rep.check(ok, 'R11.7', '%s/routing' % nm, why, '%s does not offer the discovered endpoint to exactly the local endpoints on the same topic (%s)' % (nm, why), b.where())


def rule_11_8(rep, fx):
    rep.rule('R11.8', 'all endpoints of a participant: GuidPrefix::range() is GUID(prefix, all-zero entity id) ..= GUID(prefix, all-0xFF entity id), the full span of one prefix in the '
                      'GUID-ordered maps; participant_lost (reader and writer side) and the discovery database select by it')
    b = fx.find('structure::guid::GuidPrefix::range')
    rep.analysed(b)
    og = Origins(b)
    t = og.of_local(0, b.return_blocks()[0], 'term')
    cb = {c['path']: c.get('bytes') for c in fx.doc['consts'] if c['path'].startswith('structure::guid::EntityId::')}

    def bound(x):
        if x[0] == 'call' and x[1].endswith('GUID::new') and len(x[2]) == 2 and x[2][0] == ('param', 1) and x[2][1][0] == 'const':
            return cb.get(x[2][1][2])
        return None
    ok = t[0] == 'call' and t[1].endswith('RangeInclusive::new') and len(t[2]) == 2 and bound(t[2][0]) == [0, 0, 0, 0] and bound(t[2][1]) == [255, 255, 255, 255]
    rep.check(ok, 'R11.8', 'GuidPrefix::range/full-span', 'GUID(prefix, 00000000) ..= GUID(prefix, ffffffff)',
              'GuidPrefix::range does not span every entity id of the prefix (%s): when a participant is lost, endpoints with ids outside the range stay matched and no unmatch status is sent' % term_str(t)[:120], b.where())
    users = sorted(set(x.key.rsplit('::', 2)[-2] + '::' + x.key.rsplit('::', 1)[-1] for x, _bb, _t in fx.callers_of('GuidPrefix::range')))
    need = ('Reader::participant_lost', 'Writer::participant_lost')
    rep.check(all(any(u.endswith(n) for u in users) for n in need), 'R11.8', 'GuidPrefix::range/users', 'used by %s' % ', '.join(users)[:160],
              'participant_lost of the reader or the writer no longer selects its proxies with GuidPrefix::range (users: %s)' % users, b.where())


def rule_11_12(rep, fx, cfg):
    """A discovered remote endpoint is handed to every local endpoint of its topic. The only thing that may hold it back is an incompatible security configuration
    (security feature, plugins present)."""
    if cfg == 'default':
        rep.rule('R11.12', 'discovered => handed over: in DPEventLoop::remote_reader_discovered / remote_writer_discovered every local writer / reader with the same topic name gets '
                           'update_reader_proxy / update_writer_proxy on every path; under the security feature the one exception is the false result of '
                           'check_are_endpoints_securities_compatible with plugins present (without plugins: always matched). Evaluated in both feature configurations, because the '
                           'default test suite does not compile the security arms')
    ev = 'rtps::dp_event_loop::DPEventLoop::'
    for fn, coll, callee in (('remote_reader_discovered', 'writers', 'Writer::update_reader_proxy'), ('remote_writer_discovered', 'available_readers', 'Reader::update_writer_proxy')):
        b = fx.find(ev + fn)
        rep.analysed(b)
        og = Origins(b, summaries=True)
        P = Pos(b)
        edges = list(switch_edges(b, fx, og))
        ups = [(bb, 'term') for bb, t in b.calls() if call_matches(t, callee)]
        topic_eq = [(s_, t_) for s_, t_, cond, lab in edges if cond[0] == 'call' and cond[1].endswith(('::eq', '::ne')) and
                    term_has(cond, lambda x: (x[0] == 'call' and x[1].endswith('topic_name')) or (x[0] == 'field' and x[1] in ('topic_name', 'my_topic_name'))) and
                    ((cond[1].endswith('::eq') and lab is True) or (cond[1].endswith('::ne') and lab is False))]
        # `let match_to_x = true;` of the default configuration: the switch on that constant has one feasible arm
        dead = [(s_, t_) for s_, t_, cond, lab in edges if cond[0] == 'const' and isinstance(lab, bool) and (str(cond[2]) in ('1', 'True', 'true')) != lab]
        nxt = [(nb, 'term') for nb, t in b.calls() if callee_res(t).endswith('::next') and has_field(og.of_operand(t['args'][0], nb, 'term'), coll)]
        incompatible = [(s_, t_) for s_, t_, cond, lab in edges if
                        (lab is False and cond[0] == 'call' and cond[1].endswith('check_are_endpoints_securities_compatible')) or
                        (lab is True and cond[0] == 'un' and cond[1] == 'Not' and term_has(cond, lambda x: x[0] == 'call' and x[1].endswith('check_are_endpoints_securities_compatible')))]
        ok = bool(ups) and bool(topic_eq) and bool(nxt)
        # store-aware: the decision is kept in a bool (`match_to_x`) that is switched on after the join, so paths are evaluated with constant propagation
        from rdv.sympath import SymPath
        from rdv.core import natural_loops
        sp = SymPath(b, fx)
        up_blocks = tuple(bb for bb, _k in ups)
        heads = set(l[0] for l in natural_loops(b))
        enders = set(b.return_blocks())
        for bb in b.live_blocks():
            if any(sx in heads for sx in b.succs(bb)):
                enders.add(bb)
        n_skip = 0
        teq = set(topic_eq)
        inc = set(incompatible)
        none = set((s_, t_) for s_, t_, cond, lab in edges if lab == 'None' and cond[0] == 'discr' and has_field(cond, 'security_plugins_opt'))
        for g in sorted(enders):
            for path in sp.paths(0, g, through_heads=True, avoid=up_blocks):
                pe = set((path[i], path[i + 1]) for i in range(len(path) - 1))
                if not (pe & teq):
                    continue
                st = sp.run(path, 'term')
                if st.infeasible:
                    continue
                n_skip += 1
                if not (pe & inc) or (pe & none):
                    ok = False
        if cfg == 'security':
            ok = ok and bool(incompatible) and bool(none) and n_skip >= 1
        else:
            ok = ok and not incompatible and n_skip == 0
        rep.check(ok, 'R11.12', '%s/%s/hands-over' % (cfg, fn), 'same topic => %s on every path%s' % (callee, ' (except incompatible security)' if cfg == 'security' else ''),
                  '%s [%s features]: a local endpoint on the topic of the discovered remote endpoint can be skipped without %s although nothing speaks against the match '
                  '(no incompatible security configuration on that path): the remote endpoint is announced and compatible but never matched' % (fn, cfg, callee), b.where())


# ----------------------------------------------------------------------------- R11.13 / R11.14 (added after mutation round 4)

def _places(x):
    """All (local, projection) pairs mentioned in an rvalue / operand JSON, with the tuple index for aggregate operands."""
    out = []
    if isinstance(x, dict):
        if 'l' in x and isinstance(x['l'], int):
            out.append((x['l'], x.get('p') or []))
        for k, v in x.items():
            if k != 'l':
                out.extend(_places(v))
    elif isinstance(x, list):
        for v in x:
            out.extend(_places(v))
    return out


def _flows(body, src):
    """Locals (with an optional first tuple field) that may hold the value of local `src` or something derived from it: forward closure over assignments and calls,
    sensitive to the first field of tuples so that `(a, b)` built and taken apart again keeps a and b separate. Over-approximate on calls (any tainted argument taints the result)."""
    taint = {(src, None)}

    def tainted(l, proj):
        if (l, None) in taint:
            return True
        f = next((p['f'] for p in proj if isinstance(p, dict) and 'f' in p), None)
        for (tl, tf) in taint:
            if tl == l and tf is not None and (f is None or f == tf):
                return True
        return False
    changed = True
    while changed:
        changed = False
        for bb in sorted(body.live_blocks()):
            blk = body.blocks[bb]
            for st in blk['st']:
                if st.get('s') != 'assign':
                    continue
                lhs = st['lhs']
                if any(p == '*' for p in (lhs.get('p') or [])):
                    continue
                rv = st['rv']
                new = set()
                if rv.get('r') == 'agg' and rv.get('kind') == 'tuple' and not lhs.get('p'):
                    for i, op in enumerate(rv.get('ops', [])):
                        if any(tainted(l, p) for l, p in _places(op)):
                            new.add((lhs['l'], i))
                elif any(tainted(l, p) for l, p in _places(rv)):
                    new.add((lhs['l'], None))
                if new - taint:
                    taint |= new
                    changed = True
            t = blk['term']
            if t['t'] == 'call' and t.get('dest') and any(tainted(l, p) for a in t['args'] for l, p in _places(a)):
                d = (t['dest']['l'], None)
                if d not in taint:
                    taint.add(d)
                    changed = True
    return taint


BUILTIN_TABLE = {
    # authentication status of the remote participant -> built-in endpoint lists matched (DDS Security 8.8.2.1 and 8.8.2.2; RTPS 8.5.4.2 without security)
    'no-plugins': {'STANDARD'},
    'Authenticating': {'AUTHENTICATION'},
    'Authenticated': {'STANDARD', 'SECURE'},
    'Unauthenticated': {'STANDARD'},
    'other': set(),
}


def rule_11_13(rep, fx, cfg):
    if cfg == 'default':
        rep.rule('R11.13', 'built-in endpoints follow the participant announcement: DPEventLoop::update_participant hands every entry of the selected built-in endpoint lists to the local '
                           'writer (update_reader_proxy) / reader (update_writer_proxy) of that entry whenever the announced available_builtin_endpoints contains its flag, with the '
                           'metatraffic locators; the *_READERS_* lists go to the writers loop and the *_WRITERS_* lists to the readers loop; without security (or without plugins) the lists '
                           'are the STANDARD ones, with plugins they are selected by the authentication status: Authenticating -> AUTHENTICATION only, Authenticated -> STANDARD + SECURE, '
                           'Unauthenticated -> STANDARD, Rejected / unknown -> none')
    b = fx.find('rtps::dp_event_loop::DPEventLoop::update_participant')
    rep.analysed(b)
    og = Origins(b, summaries=True)
    P = Pos(b)
    edges = list(switch_edges(b, fx, og))
    where = b.where()
    sides = (('readers', 'Writer::update_reader_proxy', 'as_reader_proxy', 'writers', 0, 1), ('writers', 'Reader::update_writer_proxy', 'as_writer_proxy', 'available_readers', 1, 0))
    upd = {}
    for role, callee, _mk, _coll, _k, _e in sides:
        upd[role] = [(bb, t) for bb, t in b.calls() if call_matches(t, callee)]
        rep.check(len(upd[role]) == 1, 'R11.13', '%s/update_participant/%s-loop' % (cfg, role), 'one %s call' % callee,
                  'update_participant [%s features] does not call %s exactly once in a loop over the built-in endpoint list: the built-in %s of a discovered participant are never matched, '
                  'so nothing of SEDP reaches it' % (cfg, callee, role), where)
    if any(len(v) != 1 for v in upd.values()):
        return
    # --- list selection
    fills = []   # (bb, list local, const family, const role)
    for bb, t in b.calls():
        c = callee_res(t)
        if not c.endswith(('::extend_from_slice', '::to_vec', '::extend', '::to_owned')):
            continue
        consts = [x for a in t['args'] for x in term_leaves(og.of_operand(a, bb, 'term')) if x[0] == 'const' and isinstance(x[-1], str) and x[-1].endswith('_INIT_LIST')] \
            if False else []
        names = []
        for a in t['args']:
            s = term_str(og.of_operand(a, bb, 'term'))
            for w in s.replace('(', ' ').replace(')', ' ').replace('|', ' ').split():
                if w.endswith('_INIT_LIST'):
                    names.append(w.rsplit('::', 1)[-1])
        if not names:
            continue
        if c.endswith(('::to_vec', '::to_owned')):
            lst = t['dest']['l']
        else:
            # receiver: `&mut list` built in the same block
            a0 = t['args'][0].get('pl', {}).get('l')
            lst = None
            for st in b.blocks[bb]['st']:
                if st.get('s') == 'assign' and st['lhs'].get('l') == a0 and st['rv'].get('r') == 'ref' and not st['rv']['pl'].get('p'):
                    lst = st['rv']['pl']['l']
        for n in names:
            fam = n.split('_BUILTIN_')[0]
            crole = 'readers' if '_READERS_' in n else 'writers' if '_WRITERS_' in n else '?'
            fills.append((bb, lst, fam, crole))
    floor = 2
    if len(fills) < floor:
        raise CheckBroken('R11.13: %d built-in list selections found in update_participant [%s], expected at least %d' % (len(fills), cfg, floor))
    # role of each list local: which update call it reaches
    role_of = {}
    for lst in set(f[1] for f in fills):
        if lst is None:
            continue
        tn = _flows(b, lst)
        reached = set()
        for role in upd:
            bb, t = upd[role][0]
            if any((l, None) in tn or any(tl == l for tl, _f in tn) for a in t['args'] for l, _p in _places(a)):
                reached.add(role)
        role_of[lst] = reached
    by_kind = {}
    for bb, lst, fam, crole in fills:
        by_kind.setdefault((fam, crole), []).append(role_of.get(lst, set()))
    for (fam, crole), rs in sorted(by_kind.items()):
        bad = [r for r in rs if r != {crole}]
        rep.check(not bad, 'R11.13', '%s/update_participant/%s-%s-list-role' % (cfg, fam, crole), 'list filled from %s_%s feeds the %s loop only' % (fam, crole.upper(), crole),
                  'update_participant [%s features]: the %s_BUILTIN_%s_INIT_LIST entries are put into a list that feeds %s: remote built-in %s would be matched to the wrong '
                  'kind of local endpoint' % (cfg, fam, crole.upper(), (' and '.join(sorted(bad[0])) + ' loop') if bad and bad[0] else 'no matching loop', crole), where)
    # arms
    first_loop = min(bb for role in upd for bb, _t in upd[role])
    into = [bb for bb, t in b.calls() if callee_res(t).endswith('::into_iter')]
    join = min(into) if into else first_loop

    def fams_from(start_bb):
        reach = b.reachable(start_bb, avoid_blocks=[join]) | {start_bb}
        got = {}
        for bb, lst, fam, crole in fills:
            if bb in reach:
                got.setdefault(fam, set()).add(crole)
        return got, reach
    arms = {}
    if cfg == 'default':
        arms['no-plugins'] = 0
    else:
        for s_, t_, cond, lab in edges:
            if cond[0] == 'discr' and has_field(cond, 'security_plugins_opt') and lab == 'None':
                arms['no-plugins'] = t_
            if cond[0] == 'discr' and term_has(cond, lambda x: x[0] == 'call' and x[1].endswith('get_authentication_status')):
                if lab in ('Authenticating', 'Authenticated', 'Unauthenticated'):
                    arms[lab] = t_
                elif isinstance(lab, tuple) and lab[0] == 'not' and any(v in lab[1] for v in ('Authenticated', 'Authenticating', 'Unauthenticated')):
                    arms['other'] = t_
                elif lab in ('Rejected',):
                    arms['other'] = t_
        missing = [k for k in BUILTIN_TABLE if k not in arms]
        if missing:
            raise CheckBroken('R11.13: arms %s of the built-in endpoint selection not found in update_participant [security]' % missing)
    for arm, t_ in sorted(arms.items()):
        got, reach = fams_from(t_)
        want = BUILTIN_TABLE[arm]
        ok = set(got) == want and all(v == {'readers', 'writers'} for v in got.values())
        # every path of the arm passes each of its fills
        for bb, lst, fam, crole in fills:
            if bb in reach and fam in want and ok:
                if not P.every_path_passes((t_, 0), (join, 0), via_pos=[(bb, 'term')], from_entry=(t_ == 0)) and bb != t_:
                    ok = False
        rep.check(ok, 'R11.13', '%s/update_participant/%s' % (cfg, arm), '%s -> %s' % (arm, ' + '.join(sorted(want)) or 'none'),
                  'update_participant [%s features]: for a remote participant in state %s the built-in endpoint lists matched are %s, expected %s for both readers and writers '
                  '(an Authenticating or Unauthenticated participant must not get the secure endpoints; an accepted one must get all of its kind, or discovery data never flows)'
                  % (cfg, arm, {k: sorted(v) for k, v in sorted(got.items())} or 'none', sorted(want) or 'none'), where)
    # --- the loops
    for role, callee, mk, coll, kfield, efield in sides:
        ubb, ut = upd[role][0]
        nxt = [(nb, 'term') for nb, t in b.calls() if callee_res(t).endswith('::next') and
               any(call_matches(t2, callee) and P.can_reach((nb, 'term'), (b2, 'term')) and P.can_reach((b2, 'term'), (nb, 'term')) for b2, t2 in [(ubb, ut)])]
        some = [(s_, t_) for s_, t_, cond, lab in edges if lab == 'Some' and cond[0] == 'discr' and cond[1][0] == 'call' and cond[1][1].endswith('::next') and (s_, 'term') != None and
                any(P.can_reach((t_, 0), (ubb, 'term'), avoid_pos=nxt) for _ in [0])]
        skip_ok = [(s_, t_) for s_, t_, cond, lab in edges if
                   (lab == 'None' and cond[0] == 'discr' and term_has(cond, lambda x: x[0] == 'call' and x[1].endswith('::get_mut')) and has_field(cond, coll)) or
                   (lab is False and cond[0] == 'call' and cond[1].endswith('BuiltinEndpointSet::contains')) or
                   (lab is True and cond[0] == 'un' and term_has(cond, lambda x: x[0] == 'call' and x[1].endswith('BuiltinEndpointSet::contains')))]
        ok = bool(nxt) and bool(some) and len(skip_ok) >= 2
        for s_, t_ in some:
            for nb, _k in nxt:
                if P.can_reach((t_, 0), (nb, 'term'), avoid_pos=[(ubb, 'term')], avoid_edges=skip_ok):
                    ok = False
        rep.check(ok, 'R11.13', '%s/update_participant/%s-loop/every-announced-entry' % (cfg, role), 'entry with local endpoint and announced flag => %s' % callee,
                  'update_participant [%s features]: an entry of the %s list can be passed over without %s although the local endpoint exists and the participant announced the flag '
                  '(the only reasons to skip an entry are a missing local endpoint and a flag that was not announced)' % (cfg, role, callee), where)
        # the proxy is built with the metatraffic locators, for the entity id of the entry's other side; the local endpoint is looked up by the entry's own side
        mks = [(bb, t) for bb, t in b.calls() if call_matches(t, mk) and P.can_reach((bb, 'term'), (ubb, 'term'))]
        okp = len(mks) == 1
        for bb, t in mks:
            meta = og.of_operand(t['args'][1], bb, 'term')
            okp = okp and meta[0] == 'const' and str(meta[-1]) in ('1', 'True', 'true')
            eid = og.of_operand(t['args'][2], bb, 'term')
            idx = [x[1] for x in _tuple_fields(eid)]
            if idx:
                okp = okp and idx[0] == str(efield)
        recv = og.of_operand(ut['args'][0], ubb, 'term')
        gm = [x for x in _subterms(recv) if x[0] == 'call' and x[1].endswith('::get_mut')]
        for g in gm[:1]:
            idx = [x[1] for x in _tuple_fields(g[2][1])] if len(g) > 2 and len(g[2]) > 1 else []
            if idx:
                okp = okp and idx[0] == str(kfield)
        rep.check(okp, 'R11.13', '%s/update_participant/%s-loop/proxy' % (cfg, role), '%s(metatraffic, other side of the entry) for the local endpoint of the entry' % mk,
                  'update_participant [%s features]: the proxy handed to %s is not built by %s with the metatraffic locators (second argument true) for the entity id on the other side of '
                  'the list entry, or the local endpoint is not looked up by its own side of the entry: built-in traffic would go to the user-traffic ports or to the wrong entity'
                  % (cfg, callee, mk), where)


def _subterms(t):
    out = [t]
    for x in t[1:] if isinstance(t, tuple) else ():
        if isinstance(x, tuple):
            if x and isinstance(x[0], str):
                out.extend(_subterms(x))
            else:
                for y in x:
                    if isinstance(y, tuple):
                        out.extend(_subterms(y))
    return out


def _tuple_fields(t):
    """Outermost-first tuple-index field projections ('field', '0'|'1'|'2', base) applied directly to a loop element (`next(..) as Some`.0.<i>)."""
    out = []
    for x in _subterms(t):
        if x[0] == 'field' and str(x[1]) in ('0', '1', '2') and isinstance(x[2], tuple) and x[2][0] == 'field' and str(x[2][1]) == '0' and \
                isinstance(x[2][2], tuple) and x[2][2][0] == 'variant':
            out.append(x)
    return out


def rule_11_14(rep, fx):
    rep.rule('R11.14', 'a created endpoint is registered: DPEventLoop::add_local_reader passes the Reader built from the ingredients to MessageReceiver::add_reader on every returning path and '
                       'add_reader inserts it into available_readers when the id is vacant; add_local_writer inserts the Writer built from the ingredients into writers under its own '
                       'entity id on every returning path (an endpoint that is not registered is never matched and receives or serves nothing)')
    ev = 'rtps::dp_event_loop::DPEventLoop::'
    b = fx.find(ev + 'add_local_reader')
    rep.analysed(b)
    og = Origins(b, summaries=True)
    P = Pos(b)
    adds = [(bb, t) for bb, t in b.calls() if call_matches(t, 'MessageReceiver::add_reader')]
    ok = bool(adds)
    for bb, t in adds:
        v = og.of_operand(t['args'][1], bb, 'term')
        ok = ok and term_has(v, lambda x: x[0] == 'call' and x[1].endswith('Reader::new') ) and term_has(v, lambda x: x == ('param', 2))
    for r in b.return_blocks():
        if not P.every_path_passes(None, (r, 'term'), via_pos=[(bb, 'term') for bb, _t in adds], from_entry=True):
            ok = False
    rep.check(ok, 'R11.14', 'add_local_reader/registers', 'Reader::new(ingredients) -> add_reader on every path',
              'add_local_reader can return without handing the new Reader to MessageReceiver::add_reader: the DataReader exists for the application but no message is ever dispatched to it '
              'and no writer is matched with it', b.where())
    a = fx.find('rtps::message_receiver::MessageReceiver::add_reader')
    rep.analysed(a)
    oa = Origins(a, summaries=True)
    Pa = Pos(a)
    ins = [(bb, t) for bb, t in a.calls() if callee_res(t).endswith('::insert') and any(term_has(oa.of_operand(x, bb, 'term'), lambda y: y == ('param', 2)) for x in t['args'][1:])]
    ea = list(switch_edges(a, fx, oa))
    vacant = [(s_, t_) for s_, t_, cond, lab in ea if lab == 'Vacant' or (lab == 0 and cond[0] == 'discr' and '::Entry<' in (cond[2] or ''))]   # std Entry: Vacant = 0, Occupied = 1
    ok = bool(ins) and bool(vacant) and any(term_has(oa.of_operand(t['args'][0], bb, 'term'), lambda y: y[0] == 'field' and y[1] == 'available_readers') for bb, t in ins)
    for s_, t_ in vacant:
        for r in a.return_blocks():
            if not Pa.every_path_passes((t_, 0), (r, 'term'), via_pos=[(bb, 'term') for bb, _t in ins]) and (t_, 'term') not in [(bb, 'term') for bb, _t in ins]:
                ok = False
    rep.check(ok, 'R11.14', 'add_reader/inserts-when-vacant', 'vacant id => available_readers.insert(reader)',
              'MessageReceiver::add_reader can return without inserting the reader although its entity id is not taken', a.where())
    w = fx.find(ev + 'add_local_writer')
    rep.analysed(w)
    ow = Origins(w, summaries=True)
    Pw = Pos(w)
    ins = []
    for bb, t in w.calls():
        if callee_res(t).endswith('::insert') and has_field(ow.of_operand(t['args'][0], bb, 'term'), 'writers'):
            k = ow.of_operand(t['args'][1], bb, 'term')
            v = ow.of_operand(t['args'][2], bb, 'term')
            if term_has(v, lambda x: x[0] == 'call' and x[1].endswith('Writer::new')) and term_has(v, lambda x: x == ('param', 2)) and \
                    term_has(k, lambda x: x[0] == 'call' and x[1].endswith('Writer::new')) and has_field(k, 'entity_id'):
                ins.append((bb, 'term'))
    ok = bool(ins)
    for r in w.return_blocks():
        if not Pw.every_path_passes(None, (r, 'term'), via_pos=ins, from_entry=True):
            ok = False
    rep.check(ok, 'R11.14', 'add_local_writer/registers', 'writers.insert(writer.entity_id, Writer::new(ingredients)) on every path',
              'add_local_writer can return without inserting the new Writer into the writers map under its own entity id: the DataWriter exists for the application but its commands, '
              'timers and ACKNACKs find no writer', w.where())
