"""C11  Matched-endpoint sets and their status counts track discovery exactly.

Who-may-write, pairing and guard rules (default configuration). Set equality with
"currently announced" over discovery histories is not decided.
"""
from rdv.core import (CheckBroken, Origins, Pos, call_matches, callee_res, infeasible_edges, norm_path, primary_edges,
                      strip_generics, switch_edges, term_has, term_leaves, term_str)

CONFIGS = ['default', 'security']
THOROUGH_CONFIGS = []
LEVEL = 'other'

SIDES = [
    dict(name='reader', ty='rtps::reader::Reader', map='matched_writers', total='writer_match_count_total', status='SubscriptionMatched',
         update='Reader::update_writer_proxy', add='Reader::matched_writer_update', remove_fn='Reader::remove_writer_proxy',
         lost='Reader::participant_lost', incompatible='RequestedIncompatibleQos',
         mutators={'rtps::reader::Reader::matched_writer_update': 'adds or updates one proxy',
                   'rtps::reader::Reader::remove_writer_proxy': 'removes one proxy',
                   'rtps::reader::Reader::with_mutable_writer_proxy': 'detaches a proxy while a worker runs and re-attaches it (net zero)'}),
    dict(name='writer', ty='rtps::writer::Writer', map='readers', total='matched_readers_count_total', status='PublicationMatched',
         update='Writer::update_reader_proxy', add='Writer::matched_reader_update', remove_fn='Writer::reader_lost',
         lost='Writer::participant_lost', incompatible='OfferedIncompatibleQos',
         mutators={'rtps::writer::Writer::matched_reader_update': 'adds or updates one proxy (entry API)',
                   'rtps::writer::Writer::matched_reader_remove': 'removes one proxy',
                   'rtps::writer::Writer::handle_repair_data_send': 'detaches a proxy while the repair worker runs and re-attaches it (net zero)',
                   'rtps::writer::Writer::handle_repair_frags_send': 'detaches a proxy while the repair worker runs and re-attaches it (net zero)'}),
]
MUTATING = ('insert', 'remove', 'entry', 'retain', 'clear', 'pop_first', 'pop_last', 'split_off', 'append', 'extract_if', 'remove_entry', 'drain')


def has_field(t, name):
    return term_has(t, lambda x: x[0] == 'field' and x[1] == name)


def run_side(rep, fx, S):
    ty = S['ty']
    bodies = [b for b in fx.bodies if b.key.startswith(ty + '::')]
    if not bodies:
        raise CheckBroken('no bodies of %s' % ty)
    # ------------------------------------------------------------ R11.1 totals monotone
    n_w = 0
    for b in bodies:
        og = None
        for bb, si, st in b.statements():
            if st['s'] != 'assign':
                continue
            pr = st['lhs'].get('p') or []
            if not (pr and isinstance(pr[-1], dict) and pr[-1].get('n') == S['total']):
                continue
            n_w += 1
            rep.analysed(b)
            og = og or Origins(b, summaries=True)
            P = Pos(b)
            v = og._rvalue(st['rv'], bb, si, 0)
            # value = (AddWithOverflow(total, c)).0 or Add(total, c)
            adds = [x for x in term_leaves(v) if x[0] == 'bin' and x[1].startswith('Add')]
            ok = False
            why = term_str(v)[:120]
            if adds:
                a = adds[0]
                ops = [a[2], a[3]]
                selfop = [o for o in ops if o[0] == 'field' and o[1] == S['total']]
                other = [o for o in ops if not (o[0] == 'field' and o[1] == S['total'])]
                if selfop and len(other) == 1:
                    c = other[0]
                    pos_edges = []
                    for s_, t_, cond, lab in switch_edges(b, fx, og):
                        if cond[0] == 'bin' and cond[1] == 'Gt' and cond[2] == c and cond[3] == ('const', 'int', 0) and lab is True:
                            pos_edges.append((s_, t_))
                        if cond[0] == 'bin' and cond[1] == 'Lt' and cond[3] == c and cond[2] == ('const', 'int', 0) and lab is True:
                            pos_edges.append((s_, t_))
                    ok = bool(pos_edges) and P.every_path_passes(None, (bb, si), via_edges=pos_edges, from_entry=True)
                    why = 'increment %s not under a dominating `> 0`' % term_str(c)
            rep.check(ok, 'R11.1', '%s/store#%d' % (b.key, n_w), '%s += c under c > 0' % S['total'],
                      '%s is written other than by adding a positive count (%s): the total must never decrease' % (S['total'], why), b.where(bb, si))
    rep.floor('R11.1', n_w, 1, 'stores to %s' % S['total'])

    # ------------------------------------------------------------ R11.3 who mutates the match map
    muts = {}
    for b in bodies:
        og = None
        for bb, t in b.calls():
            last = callee_res(t).rsplit('::', 1)[-1]
            if last not in MUTATING or not t['args']:
                continue
            og = og or Origins(b, summaries=True)
            r = og.of_operand(t['args'][0], bb, 'term')
            if r[0] == 'field' and r[1] == S['map'] and r[2] in (('param', 1),) or (r[0] == 'field' and r[1] == S['map'] and term_has(r[2], lambda x: x[0] == 'param' and x[1] == 1)):
                key = b.key if b.kind != 'closure' else b.encl
                muts.setdefault(key, []).append((b, bb, last))
    for key in sorted(muts):
        ok = key in S['mutators']
        b, bb, last = muts[key][0]
        rep.check(ok, 'R11.3', '%s/mutates-%s' % (key, S['map']), S['mutators'].get(key, ''),
                  '%s mutates the match map %s (%s) but is not one of the paired functions that also maintain counts and statuses' % (key, S['map'], last), b.where(bb))
    rep.floor('R11.3', len(muts), len(S['mutators']), 'functions mutating %s' % S['map'])

    # ------------------------------------------------------------ R11.2 status constructions
    n_st = 0
    for b in bodies:
        og = None
        for bb, si, st in b.statements():
            if not (st['s'] == 'assign' and st['rv']['r'] == 'agg' and st['rv'].get('variant') == S['status']):
                continue
            n_st += 1
            rep.analysed(b)
            og = og or Origins(b, summaries=True)
            P = Pos(b)
            fields = st['rv']['fields']
            cur = og.of_operand(st['rv']['ops'][fields.index('current')], bb, si)
            tot = og.of_operand(st['rv']['ops'][fields.index('total')], bb, si)
            lens = [x for x in term_leaves(cur) if x[0] == 'call' and x[1].endswith('::len') and has_field(x, S['map'])]
            ok_cur = bool(lens)
            ok_tot = has_field(tot, S['total'])
            # the len() is evaluated after the mutation of this path
            mut_calls = [(mb, 'term') for mb, t in b.calls() if call_matches(t, S['add'], 'Writer::matched_reader_remove') or
                         (callee_res(t).rsplit('::', 1)[-1] in ('remove', 'insert') and t['args'] and has_field(og.of_operand(t['args'][0], mb, 'term'), S['map']))]
            after = ok_cur and bool(mut_calls) and all(P.every_path_passes(None, (x[3], 'term'), via_pos=mut_calls, from_entry=True) for x in lens)
            rep.check(ok_cur and after, 'R11.2', '%s/status#%d/current' % (b.key, n_st), 'current = %s.len() evaluated after the mutation' % S['map'],
                      'a %s status reports a current count that is not the size of %s after the change' % (S['status'], S['map']), b.where(bb, si))
            rep.check(ok_tot, 'R11.2', '%s/status#%d/total' % (b.key, n_st), 'total = %s' % S['total'],
                      'a %s status reports a total that is not %s' % (S['status'], S['total']), b.where(bb, si))
            # the count changes agree: removal => current change -1 and total change 0; addition => both the same positive c
            def cwc(term):
                for x in term_leaves(term):
                    if x[0] == 'call' and x[1].endswith('CountWithChange::new'):
                        return [x]
                    if x[0] == 'agg' and str(x[1]).endswith('CountWithChange') and len(x[2]) == 2:
                        return [('call', 'CountWithChange::new', tuple(x[2]), -1)]
                return []
            cur_args = cwc(cur)
            tot_args = cwc(tot)
            rep.check(bool(cur_args) and bool(tot_args), 'R11.2', '%s/status#%d/shape' % (b.key, n_st), 'counts built by CountWithChange::new(count, change)',
                      'the counts of a %s status are not built by CountWithChange::new(count, change)' % S['status'], b.where(bb, si))
            if cur_args and tot_args:
                cc, tc = cur_args[0][2][1], tot_args[0][2][1]
                ok_ch = (cc == ('const', 'int', -1) and tc == ('const', 'int', 0)) or (cc == tc and cc[0] != 'const')
                rep.check(ok_ch, 'R11.2', '%s/status#%d/changes' % (b.key, n_st), 'count changes agree (%s / %s)' % (term_str(cc), term_str(tc)),
                          'the count changes of a %s status do not agree (current %s, total %s)' % (S['status'], term_str(cc), term_str(tc)), b.where(bb, si))
            # a removal status is sent only if something was removed: under contains_key(map, k) / remove(..) is Some with k the removed key
            if cur_args and cur_args[0][2][1] == ('const', 'int', -1):
                rm = []
                for mb, t in b.calls():
                    if callee_res(t).rsplit('::', 1)[-1] == 'remove' and has_field(og.of_operand(t['args'][0], mb, 'term'), S['map']):
                        rm.append(og.of_operand(t['args'][1], mb, 'term'))
                    if call_matches(t, 'Writer::matched_reader_remove'):
                        rm.append(og.of_operand(t['args'][1], mb, 'term'))
                guards = []
                for s_, t_, cond, lab in switch_edges(b, fx, og):
                    if cond[0] == 'call' and cond[1].endswith('::contains_key') and has_field(cond[2][0], S['map']) and lab is True and cond[2][1] in rm:
                        guards.append((s_, t_))
                    if cond[0] == 'discr' and lab == 'Some' and cond[1][0] == 'call' and cond[1][1].endswith('::remove') and has_field(cond[1], S['map']):
                        guards.append((s_, t_))
                    if cond[0] == 'call' and cond[1].endswith(('Option::is_some', 'Option::is_none')) and lab is cond[1].endswith('is_some') \
                            and cond[2][0][0] == 'call' and cond[2][0][1].endswith('::remove') and has_field(cond[2][0], S['map']):
                        guards.append((s_, t_))
                ok_g = bool(guards) and P.every_path_passes(None, (bb, si), via_edges=guards, from_entry=True)
                rep.check(ok_g, 'R11.2', '%s/status#%d/only-if-removed' % (b.key, n_st), 'unmatch status only when the removed key was in the map',
                          'an unmatch (%s, -1) status can be sent for an endpoint that was not in %s (guard is not a membership test of the removed key): '
                          'counts drift from the set' % (S['status'], S['map']), b.where(bb, si))
                # removal is followed by the status on every path (within the guarded region)
                for s_, t_ in guards:
                    for r in b.return_blocks():
                        if P.can_reach((t_, 0), (r, 'term'), avoid_pos=[(bb, si)]):
                            rep.violation('R11.2', '%s/status#%d/always-sent' % (b.key, n_st), 'a removal can complete without the unmatch status being sent', b.where(bb, si))
    rep.floor('R11.2', n_st, 2, '%s constructions' % S['status'])

    # ------------------------------------------------------------ R11.4 incompatible => no insert
    ub = fx.find(S['update'])
    rep.analysed(ub)
    og = Origins(ub, summaries=True)
    P = Pos(ub)
    edges = primary_edges(ub, list(switch_edges(ub, fx, og)))
    none_e = [(s_, t_) for s_, t_, cond, lab in edges if lab == 'None' and term_has(cond, lambda x: x[0] == 'call' and x[1].endswith('compliance_failure_wrt'))]
    some_e = [(s_, t_) for s_, t_, cond, lab in edges if lab == 'Some' and term_has(cond, lambda x: x[0] == 'call' and x[1].endswith('compliance_failure_wrt'))]
    adds = [(bb, 'term') for bb, t in ub.calls() if call_matches(t, S['add'])]
    ok = bool(none_e) and bool(adds) and all(P.every_path_passes(None, a, via_edges=none_e, from_entry=True) for a in adds)
    rep.check(ok, 'R11.4', '%s/match-only-if-compatible' % ub.key, 'proxy added only on compliance_failure_wrt(..) == None',
              'a remote endpoint can be added to the match set although the QoS compatibility check did not return None', ub.where())
    inc = [(bb, si) for bb, si, st in ub.statements() if st['s'] == 'assign' and st['rv']['r'] == 'agg' and st['rv'].get('variant') == S['incompatible']]
    matched = [(bb, si) for bb, si, st in ub.statements() if st['s'] == 'assign' and st['rv']['r'] == 'agg' and st['rv'].get('variant') == S['status']]
    ok = bool(some_e) and bool(inc)
    for s_, t_ in some_e:
        for r in ub.return_blocks():
            if P.can_reach((t_, 0), (r, 'term'), avoid_pos=inc):
                ok = False
        for m in matched + adds:
            if P.can_reach((t_, 0), m):
                ok = False
    rep.check(ok, 'R11.4', '%s/incompatible-event' % ub.key, 'incompatible QoS => %s status and no match' % S['incompatible'],
              'an incompatible endpoint does not always produce a %s status, or can still produce a match' % S['incompatible'], ub.where())
    # a status for an added proxy is sent on every path where the count changed (c > 0)
    pos_edges = [(s_, t_) for s_, t_, cond, lab in switch_edges(ub, fx, og) if cond[0] == 'bin' and cond[1] == 'Gt' and cond[3] == ('const', 'int', 0) and lab is True]
    ok = bool(pos_edges) and bool(matched)
    for s_, t_ in pos_edges:
        for r in ub.return_blocks():
            if P.can_reach((t_, 0), (r, 'term'), avoid_pos=matched):
                ok = False
    rep.check(ok, 'R11.4', '%s/matched-event' % ub.key, 'a new match always produces a %s status' % S['status'],
              'a new match (count change > 0) does not always produce a %s status' % S['status'], ub.where())

    # ------------------------------------------------------------ R11.5 participant lost
    lb = fx.find(S['lost'])
    rep.analysed(lb)
    og = Origins(lb, summaries=True)
    rng = [(bb, t) for bb, t in lb.calls() if callee_res(t).endswith('::range') and has_field(og.of_operand(t['args'][0], bb, 'term'), S['map'])]
    ok = bool(rng) and all(term_has(og.of_operand(t['args'][1], bb, 'term'), lambda x: x[0] == 'call' and x[1].endswith('GuidPrefix::range') and x[2][0] == ('param', 2)) for bb, t in rng)
    rm = [(bb, t) for bb, t in lb.calls() if call_matches(t, S['remove_fn'])]
    ok2 = bool(rm) and all(term_has(og.of_operand(t['args'][1], bb, 'term'), lambda x: x[0] == 'call' and x[1].endswith('::next')) for bb, t in rm)
    # the loop runs over the whole collected list: leaves only on next() == None
    rep.check(ok and ok2, 'R11.5', '%s/all-endpoints' % lb.key, 'every key in %s.range(prefix.range()) is removed through %s' % (S['map'], S['remove_fn']),
              'participant_lost does not remove every matched endpoint of the lost participant through %s' % S['remove_fn'], lb.where())
    if rm:
        P = Pos(lb)
        nxt = [bb for bb, t in lb.calls() if callee_res(t).endswith('::next')]
        some = [(s_, t_) for s_, t_, cond, lab in switch_edges(lb, fx, og) if lab == 'Some' and term_has(cond, lambda x: x[0] == 'call' and x[1].endswith('::next'))]
        ok3 = bool(some)
        for s_, t_ in some:
            for nb in nxt:
                if P.can_reach((t_, 0), (nb, 'term'), avoid_pos=[(bb, 'term') for bb, _t in rm]):
                    ok3 = False
        rep.check(ok3, 'R11.5', '%s/each-element' % lb.key, 'each listed endpoint is removed before the next one is fetched',
                  'an endpoint of the lost participant can be skipped without being removed', lb.where())


def run(rep, facts, tier):
    fx = facts['default']
    rep.explanation = ('Who-may-write, pairing and guard rules on rtps::Reader / rtps::Writer: totals only grow; the current count of every matched status is the size of the '
                       'match map after the change; the maps are mutated only by the paired functions; an unmatch status is sent only for a key that was in the map; '
                       'an incompatible endpoint yields the incompatible-QoS status and no match; participant loss removes every endpoint of that participant and the event loop '
                       'forwards losses to every local reader and writer.')
    rep.assume('a remote endpoint keeps the QoS it was announced with (as in the property statement)', 'set equality with "currently announced" over histories is not decided')
    rep.rule('R11.1', 'the total-match counters are written only as total += c under a dominating c > 0')
    rep.rule('R11.2', 'every Subscription/PublicationMatched status takes current from len() of the match map after the mutation of that path and total from the monotone counter; '
                      'count changes agree; an unmatch status is sent only when the removed key was in the map, and always then')
    rep.rule('R11.3', 'the match maps are mutated only in the paired add / remove / detach-reattach functions')
    rep.rule('R11.4', 'a proxy is added only on compliance_failure_wrt(..) == None; the Some arm sends the incompatible-QoS status and no match; a new match always sends the matched status')
    rep.rule('R11.5', 'participant_lost removes every key of range(prefix.range()); DPEventLoop forwards participant / writer / reader loss to every local reader and writer')
    for S in SIDES:
        run_side(rep, fx, S)
    # detach / re-attach helpers: the removed proxy is re-inserted under its own key on every path of the Some arm
    for key, mp in (('rtps::reader::Reader::with_mutable_writer_proxy', 'matched_writers'), ('rtps::writer::Writer::handle_repair_data_send', 'readers'),
                    ('rtps::writer::Writer::handle_repair_frags_send', 'readers')):
        wm = fx.find(key)
        rep.analysed(wm)
        og = Origins(wm, summaries=True)
        P = Pos(wm)
        some = [(s_, t_) for s_, t_, cond, lab in primary_edges(wm, list(switch_edges(wm, fx, og))) if lab == 'Some' and cond[0] == 'discr' and cond[1][0] == 'call' and cond[1][1].endswith('::remove')]
        ins = [(bb, 'term') for bb, t in wm.calls() if callee_res(t).endswith('::insert') and has_field(og.of_operand(t['args'][0], bb, 'term'), mp)]
        ok = bool(some) and bool(ins)
        for s_, t_ in some:
            for r in wm.return_blocks():
                if P.can_reach((t_, 0), (r, 'term'), avoid_pos=ins):
                    ok = False
        keyok = False
        for bb, t in wm.calls():
            if callee_res(t).endswith('::insert') and has_field(og.of_operand(t['args'][0], bb, 'term'), mp):
                k = og.of_operand(t['args'][1], bb, 'term')
                v = og.of_operand(t['args'][2], bb, 'term')
                keyok = (k == ('param', 2) or (k[0] == 'field' and k[1] in ('remote_reader_guid', 'remote_writer_guid'))) and \
                    term_has(v, lambda x: x[0] == 'call' and x[1].endswith('::remove'))
        rep.check(ok and keyok, 'R11.3', '%s/net-zero' % key.rsplit('::', 1)[-1], 'detached proxy re-inserted under its own key on every path',
                  '%s can return without re-inserting the proxy it removed (the match set would silently shrink)' % key.rsplit('::', 1)[-1], wm.where())
    # event loop forwarding
    ev = 'rtps::dp_event_loop::DPEventLoop::'
    for fn, coll, callee in (('remote_participant_lost', 'writers', 'Writer::participant_lost'), ('remote_participant_lost', 'available_readers', 'Reader::participant_lost'),
                             ('remote_writer_lost', 'available_readers', 'Reader::remove_writer_proxy'), ('remote_reader_lost', 'writers', 'Writer::reader_lost')):
        b = fx.find(ev + fn)
        rep.analysed(b)
        og = Origins(b, summaries=True)
        calls = [(bb, t) for bb, t in b.calls() if call_matches(t, callee)]
        ok = bool(calls)
        for bb, t in calls:
            recv = og.of_operand(t['args'][0], bb, 'term')
            ok = ok and term_has(recv, lambda x: x[0] == 'call' and x[1].endswith('::next')) and has_field(recv, coll) and \
                term_has(recv, lambda x: x[0] == 'call' and x[1].rsplit('::', 1)[-1] in ('values_mut', 'iter_mut'))
            ok = ok and og.of_operand(t['args'][1], bb, 'term') == ('param', 2)
        # no filter: the call is reached for every element (Some edge -> call without a skipping branch)
        if calls:
            P = Pos(b)
            some = [(s_, t_) for s_, t_, cond, lab in switch_edges(b, fx, og) if lab == 'Some' and term_has(cond, lambda x: x[0] == 'call' and x[1].endswith('::next')) and has_field(cond, coll)]
            nxt = [nb for nb, t in b.calls() if callee_res(t).endswith('::next') and has_field(og.of_operand(t['args'][0], nb, 'term'), coll)]
            for s_, t_ in some:
                for nb in nxt:
                    if P.can_reach((t_, 0), (nb, 'term'), avoid_pos=[(cb, 'term') for cb, _ in calls]):
                        ok = False
        rep.check(ok, 'R11.5', '%s/forwards-to-all-%s' % (fn, coll), '%s for every element of %s' % (callee, coll),
                  '%s does not forward the loss to every element of %s via %s' % (fn, coll, callee), b.where())
    if tier == 'thorough' and 'security' in facts:
        # the same rules on the security configuration (cfg arms differ in remove_writer_proxy / matched_reader_remove)
        for S in SIDES:
            run_side(rep, facts['security'], dict(S, name=S['name'] + '-security'))

    rule_11_7(rep, fx, facts)
    rule_11_8(rep, fx)
    for cfg in ('default', 'security'):
        if cfg in facts:
            rule_11_12(rep, facts[cfg], cfg)

    # the attic helper must move all endpoints of the participant (shared with C12 R12.7; added after seed C11e: an entry left behind in the attic is restored later in place
    # of / in addition to the live one, so a disposed endpoint is matched again and a lost participant's endpoint stays announced)
    from rules.C12 import rule_move_all
    rule_move_all(rep, fx, 'R11.9')

    # participant removal polarity and the one-participant-at-a-time discipline of the discovery database (decided under C12) are necessary for the matched set too
    from rdv import report as _report
    _report.borrow(rep, facts, tier, 'C12', {'R12.3': 'R11.10', 'R12.6': 'R11.11'})

    # ------------------------------------------------------------ R11.6 crossed roles (shared lint, rdv/swaplint.py)
    from rdv import swaplint
    swaplint.run_rule(rep, facts['default'], 'R11.6', ['rtps::dp_event_loop', 'discovery::discovery_db', 'rtps::reader::Reader::update', 'rtps::writer::Writer::update', 'dds::statusevents'])


def rule_11_7(rep, fx, facts):
    """Which local endpoints hear about a discovered remote endpoint: all of them on the same topic, nobody else."""
    rep.rule('R11.7', 'topic routing of discovery: remote_writer_discovered offers the remote writer to every element of available_readers (unfiltered iteration) whose topic name equals the '
                      'announced topic name, with the proxy built from that announcement and its QoS; remote_reader_discovered likewise for every local writer; without security nothing '
                      'else decides')
    for nm, coll, upd, tdata, mk in (('remote_writer_discovered', 'available_readers', 'Reader::update_writer_proxy', 'publication_topic_data', 'from_discovered_writer_data'),
                                     ('remote_reader_discovered', 'writers', 'Writer::update_reader_proxy', 'subscription_topic_data', 'from_discovered_reader_data')):
        b = fx.find('rtps::dp_event_loop::DPEventLoop::' + nm)
        rep.analysed(b)
        og = Origins(b)
        P = Pos(b)
        edges = list(switch_edges(b, fx, og))
        ups = [(bb, t) for bb, t in b.calls() if callee_res(t).endswith(upd)]
        ok = len(ups) == 1
        why = '%d update call(s)' % len(ups)
        if ok:
            bb, t = ups[0]
            recv = og.of_operand(t['args'][0], bb, 'term')
            unfiltered = term_has(recv, lambda x: x[0] == 'call' and x[1].endswith('::next')) and term_has(recv, lambda x: x[0] == 'field' and x[1] == coll) and \
                not term_has(recv, lambda x: x[0] == 'call' and x[1].rsplit('::', 1)[-1] in ('filter', 'take', 'skip', 'find', 'take_while', 'filter_map', 'range', 'get', 'get_mut'))
            proxy = og.of_operand(t['args'][1], bb, 'term')
            qos = og.of_operand(t['args'][2], bb, 'term')
            from_ann = term_has(proxy, lambda x: x[0] == 'call' and x[1].endswith(mk) and x[2] and x[2][0] == ('param', 2)) and \
                term_has(qos, lambda x: x[0] == 'call' and x[1].endswith('::qos') and term_has(x, lambda y: y == ('param', 2)))
            guards = [(s_, t_) for s_, t_, cond, lab in edges if lab is True and cond[0] == 'call' and cond[1].endswith('::eq') and len(cond[2]) == 2 and
                      any(term_has(a, lambda x: x == ('param', 2)) and ('topic_name' in term_str(a)) for a in cond[2]) and
                      any(term_has(a, lambda x: x[0] == 'call' and x[1].endswith('::next')) and 'topic_name' in term_str(a) for a in cond[2])]
            guarded = bool(guards) and P.every_path_passes(None, (bb, 'term'), via_edges=guards, from_entry=True)
            # from the guard's True edge the update is reached before the next iteration on every path (edges that contradict a literal condition are infeasible)
            always = True
            nexts = [(nb, 'term') for nb, nt in b.calls() if callee_res(nt).endswith('::next')]
            dead = [(s2, t2) for s2, t2, c2, l2 in edges if c2 == ('const', 'int', 1) and l2 is False] + [(s2, t2) for s2, t2, c2, l2 in edges if c2 == ('const', 'int', 0) and l2 is True]
            if 'security' not in facts or True:
                for s_, t_ in guards:
                    for nx in nexts + [(r, 'term') for r in b.return_blocks()]:
                        if P.can_reach((t_, 0), nx, avoid_pos=[(bb, 'term')], avoid_edges=dead):
                            always = False
            ok = unfiltered and from_ann and guarded and always
            why = 'unfiltered iteration %s, proxy/QoS from the announcement %s, behind topic-name equality %s, nothing else decides %s' % (unfiltered, from_ann, guarded, always)
        rep.check(ok, 'R11.7', '%s/routing' % nm, why, '%s does not offer the discovered endpoint to exactly the local endpoints on the same topic (%s)' % (nm, why), b.where())


def rule_11_8(rep, fx):
    rep.rule('R11.8', 'all endpoints of a participant: GuidPrefix::range() is GUID(prefix, all-zero entity id) ..= GUID(prefix, all-0xFF entity id), the full span of one prefix in the '
                      'GUID-ordered maps; participant_lost (reader and writer side) and the discovery database select by it')
    b = fx.find('structure::guid::GuidPrefix::range')
    rep.analysed(b)
    og = Origins(b)
    t = og.of_local(0, b.return_blocks()[0], 'term')
    cb = {c['path']: c.get('bytes') for c in fx.doc['consts'] if c['path'].startswith('structure::guid::EntityId::')}

    def bound(x):
        if x[0] == 'call' and x[1].endswith('GUID::new') and len(x[2]) == 2 and x[2][0] == ('param', 1) and x[2][1][0] == 'const':
            return cb.get(x[2][1][2])
        return None
    ok = t[0] == 'call' and t[1].endswith('RangeInclusive::new') and len(t[2]) == 2 and bound(t[2][0]) == [0, 0, 0, 0] and bound(t[2][1]) == [255, 255, 255, 255]
    rep.check(ok, 'R11.8', 'GuidPrefix::range/full-span', 'GUID(prefix, 00000000) ..= GUID(prefix, ffffffff)',
              'GuidPrefix::range does not span every entity id of the prefix (%s): when a participant is lost, endpoints with ids outside the range stay matched and no unmatch status is sent' % term_str(t)[:120], b.where())
    users = sorted(set(x.key.rsplit('::', 2)[-2] + '::' + x.key.rsplit('::', 1)[-1] for x, _bb, _t in fx.callers_of('GuidPrefix::range')))
    need = ('Reader::participant_lost', 'Writer::participant_lost')
    rep.check(all(any(u.endswith(n) for u in users) for n in need), 'R11.8', 'GuidPrefix::range/users', 'used by %s' % ', '.join(users)[:160],
              'participant_lost of the reader or the writer no longer selects its proxies with GuidPrefix::range (users: %s)' % users, b.where())


def rule_11_12(rep, fx, cfg):
    """A discovered remote endpoint is handed to every local endpoint of its topic. The only thing that may hold it back is an incompatible security configuration
    (security feature, plugins present)."""
    if cfg == 'default':
        rep.rule('R11.12', 'discovered => handed over: in DPEventLoop::remote_reader_discovered / remote_writer_discovered every local writer / reader with the same topic name gets '
                           'update_reader_proxy / update_writer_proxy on every path; under the security feature the one exception is the false result of '
                           'check_are_endpoints_securities_compatible with plugins present (without plugins: always matched). Evaluated in both feature configurations, because the '
                           'default test suite does not compile the security arms')
    ev = 'rtps::dp_event_loop::DPEventLoop::'
    for fn, coll, callee in (('remote_reader_discovered', 'writers', 'Writer::update_reader_proxy'), ('remote_writer_discovered', 'available_readers', 'Reader::update_writer_proxy')):
        b = fx.find(ev + fn)
        rep.analysed(b)
        og = Origins(b, summaries=True)
        P = Pos(b)
        edges = list(switch_edges(b, fx, og))
        ups = [(bb, 'term') for bb, t in b.calls() if call_matches(t, callee)]
        topic_eq = [(s_, t_) for s_, t_, cond, lab in edges if cond[0] == 'call' and cond[1].endswith(('::eq', '::ne')) and
                    term_has(cond, lambda x: (x[0] == 'call' and x[1].endswith('topic_name')) or (x[0] == 'field' and x[1] in ('topic_name', 'my_topic_name'))) and
                    ((cond[1].endswith('::eq') and lab is True) or (cond[1].endswith('::ne') and lab is False))]
        # `let match_to_x = true;` of the default configuration: the switch on that constant has one feasible arm
        dead = [(s_, t_) for s_, t_, cond, lab in edges if cond[0] == 'const' and isinstance(lab, bool) and (str(cond[2]) in ('1', 'True', 'true')) != lab]
        nxt = [(nb, 'term') for nb, t in b.calls() if callee_res(t).endswith('::next') and has_field(og.of_operand(t['args'][0], nb, 'term'), coll)]
        incompatible = [(s_, t_) for s_, t_, cond, lab in edges if
                        (lab is False and cond[0] == 'call' and cond[1].endswith('check_are_endpoints_securities_compatible')) or
                        (lab is True and cond[0] == 'un' and cond[1] == 'Not' and term_has(cond, lambda x: x[0] == 'call' and x[1].endswith('check_are_endpoints_securities_compatible')))]
        ok = bool(ups) and bool(topic_eq) and bool(nxt)
        # store-aware: the decision is kept in a bool (`match_to_x`) that is switched on after the join, so paths are evaluated with constant propagation
        from rdv.sympath import SymPath
        from rdv.core import natural_loops
        sp = SymPath(b, fx)
        up_blocks = tuple(bb for bb, _k in ups)
        heads = set(l[0] for l in natural_loops(b))
        enders = set(b.return_blocks())
        for bb in b.live_blocks():
            if any(sx in heads for sx in b.succs(bb)):
                enders.add(bb)
        n_skip = 0
        teq = set(topic_eq)
        inc = set(incompatible)
        none = set((s_, t_) for s_, t_, cond, lab in edges if lab == 'None' and cond[0] == 'discr' and has_field(cond, 'security_plugins_opt'))
        for g in sorted(enders):
            for path in sp.paths(0, g, through_heads=True, avoid=up_blocks):
                pe = set((path[i], path[i + 1]) for i in range(len(path) - 1))
                if not (pe & teq):
                    continue
                st = sp.run(path, 'term')
                if st.infeasible:
                    continue
                n_skip += 1
                if not (pe & inc) or (pe & none):
                    ok = False
        if cfg == 'security':
            ok = ok and bool(incompatible) and bool(none) and n_skip >= 1
        else:
            ok = ok and not incompatible and n_skip == 0
        rep.check(ok, 'R11.12', '%s/%s/hands-over' % (cfg, fn), 'same topic => %s on every path%s' % (callee, ' (except incompatible security)' if cfg == 'security' else ''),
                  '%s [%s features]: a local endpoint on the topic of the discovered remote endpoint can be skipped without %s although nothing speaks against the match '
                  '(no incompatible security configuration on that path): the remote endpoint is announced and compatible but never matched' % (fn, cfg, callee), b.where())
