"""C02  Reliable writer/reader pair converges after any finite loss, then goes quiet.

Convergence over fault schedules and timer races is NOT decided (no sound static argument in
reach bounds it). Decided are structural necessary conditions: the request path from a
received ACKNACK to the writer exists, periodic and repair timers are re-armed, HEARTBEATs
are suppressed only when everything is acknowledged, and repair switches off only when
nothing is left to send.
"""
from rdv.core import (CheckBroken, Origins, Pos, call_matches, callee_res, natural_loops, norm_path, primary_edges,
                      resolve_captures, strip_generics, switch_edges, term_has, term_leaves, term_str)
from rules import C20

CONFIGS = ['default']
LEVEL = 'other'

W = 'rtps::writer::Writer::'


def has_field(t, name):
    return term_has(t, lambda x: x[0] == 'field' and x[1] == name)


def has_call(t, suffix):
    return term_has(t, lambda x: x[0] == 'call' and x[1].endswith(suffix))


def run(rep, facts, tier):
    fx = facts['default']
    rep.explanation = ('Handler completeness and pairing rules: ACKNACK -> acknack channel -> Writer::handle_ack_nack (drained until empty); every periodic timer arm re-arms its '
                       'timer, the repair arms re-arm while repair is pending; the heartbeat is suppressed only under last_written < acked_before for every reader (same role-pair '
                       'normalisation as C20); repair mode is switched off only when the unsent set is empty or everything is acknowledged.')
    rep.assume('mio timer delivers re-armed timeouts; UDP send reaches the socket', 'convergence in a bounded number of rounds and silence as a duration are not decided')
    rep.rule('R02.1', 'request path: the AckNack arm of handle_reader_submessage sends AckSubmessage::AckNack on the acknack channel; the event loop drains that channel until '
                      'empty and hands every item to Writer::handle_ack_nack of the addressed writer')
    rep.rule('R02.2', 'timer re-arm: Heartbeat and CacheCleaning arms re-arm on every path (Heartbeat: whenever a period is configured); SendRepairData / SendRepairFrags re-arm '
                      'exactly while repair_mode / repair_frags_requested()')
    rep.rule('R02.3', 'heartbeat suppression and repair switch-off use S < B (last written < acked-before): never suppressed while the newest sample is unacknowledged')
    rep.rule('R02.4', 'goes quiet / keeps going: repair_mode := false only when the unsent set is empty or all is acknowledged; := true and the repair timer armed otherwise; '
                      'the reader answers every non-final or informative HEARTBEAT with an ACKNACK')

    # ------------------------------------------------------------ R02.1
    hr = fx.find('rtps::message_receiver::MessageReceiver::handle_reader_submessage')
    rep.analysed(hr)
    og = Origins(hr, summaries=True)
    P = Pos(hr)
    an = [(s_, t_) for s_, t_, cond, lab in primary_edges(hr, list(switch_edges(hr, fx, og))) if lab == 'AckNack']
    snd = []
    for bb, t in hr.calls():
        if callee_res(t).endswith('try_send') and has_field(og.of_operand(t['args'][0], bb, 'term'), 'acknack_sender'):
            v = og.of_operand(t['args'][1], bb, 'term')
            if term_has(v, lambda x: x[0] == 'agg' and str(x[1]).endswith('AckSubmessage::AckNack')) and has_field(v, 'source_guid_prefix'):
                snd.append((bb, 'term'))
    ok = bool(an) and bool(snd)
    for s_, t_ in an:
        for r in hr.return_blocks():
            if P.can_reach((t_, 0), (r, 'term'), avoid_pos=snd):
                ok = False
    rep.check(ok, 'R02.1', 'handle_reader_submessage/acknack-forwarded', 'AckNack => acknack_sender.try_send((source prefix, AckSubmessage::AckNack(..)))',
              'a received ACKNACK is not always forwarded (with the source guid prefix) on the acknack channel: the writer never learns what is missing', hr.where())
    # the other request a Reader can make (raised F31, a known finding): a sample of which some fragments have arrived is left out of the ACKNACK set and asked for by NACKFRAG
    # (C03 R03.9) - which nobody listens to. After the copies the Writer sends of its own accord are lost, nothing asks for the fragment again
    nf = [(s_, t_) for s_, t_, cond, lab in primary_edges(hr, list(switch_edges(hr, fx, og))) if lab == 'NackFrag']
    snd_nf = []
    for bb, t in hr.calls():
        if callee_res(t).endswith('try_send') and has_field(og.of_operand(t['args'][0], bb, 'term'), 'acknack_sender'):
            v = og.of_operand(t['args'][1], bb, 'term')
            if term_has(v, lambda x: x[0] == 'agg' and str(x[1]).endswith('AckSubmessage::NackFrag')) and has_field(v, 'source_guid_prefix'):
                snd_nf.append((bb, 'term'))
    okn = bool(nf) and bool(snd_nf)
    for s_, t_ in nf:
        for r in hr.return_blocks():
            if P.can_reach((t_, 0), (r, 'term'), avoid_pos=snd_nf):
                okn = False
    rep.check(okn, 'R02.1', 'handle_reader_submessage/nackfrag-forwarded', 'NackFrag => acknack_sender.try_send((source prefix, AckSubmessage::NackFrag(..)))',
              'a received NACKFRAG is dropped by the MessageReceiver: the Reader asks for the missing fragments of a partially received sample by NACKFRAG only (it leaves the sample out '
              'of its ACKNACK set), so once the copies the Writer sends unasked are lost, the fragment is never sent again and the pair keeps exchanging HEARTBEAT / ACKNACK / NACKFRAG '
              'for ever', hr.where(nf[0][0]) if nf else hr.where())
    ha = fx.find('rtps::dp_event_loop::DPEventLoop::handle_writer_acknack_action')
    rep.analysed(ha)
    og = Origins(ha, summaries=True)
    P = Pos(ha)
    recv = [bb for bb, t in ha.calls() if callee_res(t).endswith('try_recv') and has_field(og.of_operand(t['args'][0], bb, 'term'), 'ack_nack_receiver')]
    calls = [(bb, t) for bb, t in ha.calls() if call_matches(t, 'Writer::handle_ack_nack')]
    ok = bool(recv) and bool(calls)
    loops = natural_loops(ha)
    for rb in recv:
        inner = None
        for h, blocks, _src in loops:
            if rb in blocks and (inner is None or len(blocks) < len(inner)):
                inner = blocks
        if inner is None:
            ok = False
            continue
        okedges = [(s_, t_) for s_, t_, cond, lab in switch_edges(ha, fx, og) if lab == 'Ok' and term_has(cond, lambda x: x[0] == 'call' and len(x) > 3 and x[3] == rb)]
        exits = [(b_, s_) for b_ in inner for s_ in ha.succs(b_) if s_ not in inner]
        for _s, tg in okedges:
            for eb, es in exits:
                if P.can_reach((tg, 0), (eb, 'term'), avoid_pos=[(rb, 'term')]) or tg == eb:
                    ok = False
    for bb, t in calls:
        a1 = og.of_operand(t['args'][1], bb, 'term')
        a2 = og.of_operand(t['args'][2], bb, 'term')
        ok = ok and term_has(a1, lambda x: x[0] == 'call' and x[1].endswith('try_recv')) and term_has(a2, lambda x: x[0] == 'call' and x[1].endswith('try_recv'))
        w = og.of_operand(t['args'][0], bb, 'term')
        ok = ok and has_field(w, 'writers') and has_call(w, 'writer_id')
    rep.check(ok, 'R02.1', 'handle_writer_acknack_action/drain-and-dispatch', 'channel drained until empty; each item to handle_ack_nack of the writer it names',
              'the acknack channel is not drained until empty, or an item is not handed to the writer named by its writer_id', ha.where())

    # ------------------------------------------------------------ R02.2
    ht = fx.find(W + 'handle_timed_event')
    rep.analysed(ht)
    og = Origins(ht, summaries=True)
    P = Pos(ht)
    arms = {}
    for s_, t_, cond, lab in primary_edges(ht, list(switch_edges(ht, fx, og))):
        if isinstance(lab, str) and lab in ('Heartbeat', 'CacheCleaning', 'SendRepairData', 'SendRepairFrags') and 'TimedEvent' in (cond[2] or ''):
            arms[lab] = (s_, t_)
    missing = [a for a in ('Heartbeat', 'CacheCleaning', 'SendRepairData', 'SendRepairFrags') if a not in arms]
    if missing:
        raise CheckBroken('handle_timed_event: arms not found: %s' % missing)
    polls = [(bb, 'term') for bb, t in ht.calls() if callee_res(t).endswith('::poll') and has_field(og.of_operand(t['args'][0], bb, 'term'), 'timed_event_timer')]
    rearm = {}
    for bb, t in ht.calls():
        if callee_res(t).endswith('set_timeout') and has_field(og.of_operand(t['args'][0], bb, 'term'), 'timed_event_timer'):
            ev = og.of_operand(t['args'][2], bb, 'term')
            for x in term_leaves(ev):
                if x[0] == 'agg' and 'TimedEvent::' in str(x[1]):
                    rearm.setdefault(str(x[1]).rsplit('::', 1)[-1], []).append((bb, 'term'))
    edges = list(switch_edges(ht, fx, og))
    for arm, (s_, tg) in sorted(arms.items()):
        rs = rearm.get(arm, [])
        exempt = []
        if arm == 'Heartbeat':
            exempt = [(a, b) for a, b, cond, lab in edges if lab == 'None' and has_field(cond, 'heartbeat_period')]
        if arm == 'SendRepairData':
            exempt = [(a, b) for a, b, cond, lab in edges if (cond[0] == 'field' and cond[1] == 'repair_mode' and lab is False) or (lab == 'None' and has_call(cond, 'lookup_reader_proxy_mut'))]
        if arm == 'SendRepairFrags':
            exempt = [(a, b) for a, b, cond, lab in edges if (cond[0] == 'call' and cond[1].endswith('repair_frags_requested') and lab is False) or (lab == 'None' and has_call(cond, 'lookup_reader_proxy_mut'))]
        ok = bool(rs) and bool(polls)
        for p in polls + [(r, 'term') for r in ht.return_blocks()]:
            if P.can_reach((tg, 0), p, avoid_pos=rs, avoid_edges=exempt):
                ok = False
        rep.check(ok, 'R02.2', 'handle_timed_event/%s/re-arm' % arm, 'timer re-armed on every path (except: %s)' % {'Heartbeat': 'no period configured', 'SendRepairData': 'repair finished / reader gone',
                                                                                                                'SendRepairFrags': 'no frags requested / reader gone'}.get(arm, 'none'),
                  'the %s timer arm can finish without re-arming its timer: the periodic %s would stop for ever' % (arm, {'Heartbeat': 'heartbeat', 'CacheCleaning': 'history cleaning'}.get(arm, 'repair')),
                  ht.where(tg))
        # the handler of the arm is called
        handler = {'Heartbeat': 'Writer::handle_heartbeat_tick', 'CacheCleaning': 'Writer::handle_cache_cleaning', 'SendRepairData': 'Writer::handle_repair_data_send',
                   'SendRepairFrags': 'Writer::handle_repair_frags_send'}[arm]
        hs = [(bb, 'term') for bb, t in ht.calls() if call_matches(t, handler)]
        okh = bool(hs)
        for p in polls + [(r, 'term') for r in ht.return_blocks()]:
            if P.can_reach((tg, 0), p, avoid_pos=hs):
                okh = False
        rep.check(okh, 'R02.2', 'handle_timed_event/%s/handler' % arm, '%s runs on every path of the arm' % handler, 'the %s arm does not always run %s' % (arm, handler), ht.where(tg))

    # ------------------------------------------------------------ R02.3 (shares the S/B role normalisation with C20)
    n = 0
    for key in (W + 'handle_heartbeat_tick', W + 'handle_ack_nack'):
        b0 = fx.find(key)
        for b in [b0] + fx.closures_of(b0):
            og = Origins(b, summaries=True)
            pnames = {d.get('arg'): d['name'] for d in b.j.get('dbg', []) if d.get('arg')}
            for bb, t in b.calls():
                d = strip_generics(t['f'].get('def') or '')
                m = d.rsplit('::', 1)[-1]
                if not d.startswith('std::cmp::PartialOrd::') or m not in ('lt', 'le', 'gt', 'ge') or len(t['args']) != 2 or 'SequenceNumber' not in (t['f'].get('self_ty') or ''):
                    continue
                ta = resolve_captures(fx, b, og.of_operand(t['args'][0], bb, 'term'))
                tb = resolve_captures(fx, b, og.of_operand(t['args'][1], bb, 'term'))
                ra, rb = C20.role(ta, pnames), C20.role(tb, pnames)
                if not ra or not rb or ra == rb:
                    continue
                n += 1
                rep.analysed(b)
                rel = C20.NORMAL[(m, ra, rb)]
                rep.check(rel in ('<', '>='), 'R02.3', '%s/%s(%s,%s)' % (b.key, m, ra, rb), 'S %s B' % rel,
                          'comparison %s %s %s reads as "last written %s acked-before": heartbeats / repair would stop while the newest sample is still unacknowledged '
                          '(a lost newest sample is then never repaired)' % (term_str(ta)[:50], m, term_str(tb)[:50], rel), b.where(bb))
    rep.floor('R02.3', n, 3, 'heartbeat-suppression / repair switch-off comparisons')
    # the suppression is an `all` over the readers: a single unacknowledged reader keeps the heartbeat going
    hbk = fx.find(W + 'handle_heartbeat_tick')
    og = Origins(hbk, summaries=True)
    alls = [t for bb, t in hbk.calls() if callee_res(t).endswith('::all') and has_field(og.of_operand(t['args'][0], bb, 'term'), 'readers')]
    rep.check(bool(alls), 'R02.3', 'handle_heartbeat_tick/all-readers', 'suppressed only if ALL readers have everything', 'heartbeat suppression is not a conjunction over all readers', hbk.where())
    # ... over the readers that acknowledge at all (raised F28, a known finding): a best-effort reader proxy never advances all_acked_before, so a conjunction that includes it is
    # never true again once something was written
    acking = False
    for bb, t in hbk.calls():
        if callee_res(t).endswith('::all') and has_field(og.of_operand(t['args'][0], bb, 'term'), 'readers'):
            chain = og.of_operand(t['args'][0], bb, 'term')
            cls = [c for c in fx.closures_of(hbk) if c.key in str(chain) or c.key in str(og.of_operand(t['args'][1], bb, 'term'))]
            if any(any(callee_res(ct).endswith(('is_reliable', 'reliability')) for _, ct in c.calls()) for c in cls):
                acking = True
    rep.check(acking, 'R02.3', 'handle_heartbeat_tick/only-acknowledging-readers', 'the conjunction ranges over (or exempts) reader proxies that never acknowledge',
              'the "everybody has everything" test of handle_heartbeat_tick includes best-effort reader proxies, whose all_acked_before never moves: with one best-effort reader matched '
              'the periodic HEARTBEAT - and every reliable reader\'s ACKNACK in answer to it - goes on for ever although all reliable readers have acknowledged everything', hbk.where())

    # ------------------------------------------------------------ R02.4
    rw = fx.find(W + 'handle_repair_data_send_worker')
    rep.analysed(rw)
    og = Origins(rw, summaries=True)
    P = Pos(rw)
    none_e = [(s_, t_) for s_, t_, cond, lab in primary_edges(rw, list(switch_edges(rw, fx, og))) if lab == 'None' and cond[0] == 'discr' and has_call(cond[1], 'first_unsent_change')]
    for bb, si, st in rw.statements():
        if st['s'] == 'assign':
            pr = st['lhs'].get('p') or []
            if pr and isinstance(pr[-1], dict) and pr[-1].get('n') == 'repair_mode':
                x = st['rv'].get('x') or {}
                val = x['k'].get('v') if st['rv']['r'] == 'use' and x.get('o') == 'const' else None
                if val == 0:
                    ok = bool(none_e) and P.every_path_passes(None, (bb, si), via_edges=none_e, from_entry=True)
                    rep.check(ok, 'R02.4', 'handle_repair_data_send_worker/repair-off', 'repair_mode := false only when nothing is unsent',
                              'repair mode is switched off while requested sequence numbers are still unsent', rw.where(bb, si))
    ha2 = fx.find(W + 'handle_ack_nack')
    rep.analysed(ha2)
    og = Origins(ha2, summaries=True)
    P = Pos(ha2)
    edges = list(switch_edges(ha2, fx, og))
    n_rm = 0
    for bb, si, st in ha2.statements():
        if st['s'] == 'assign':
            pr = st['lhs'].get('p') or []
            if pr and isinstance(pr[-1], dict) and pr[-1].get('n') == 'repair_mode':
                x = st['rv'].get('x') or {}
                val = x['k'].get('v') if st['rv']['r'] == 'use' and x.get('o') == 'const' else None
                n_rm += 1
                acked = []
                for s_, t_, cond, lab in edges:
                    if cond[0] == 'call' and cond[1].startswith('std::cmp::PartialOrd::') and len(cond[2]) == 2:
                        m = cond[1].rsplit('::', 1)[-1]
                        ra, rb = C20.role(cond[2][0], {}), C20.role(cond[2][1], {})
                        if ra and rb and ra != rb:
                            rel = C20.NORMAL[(m, ra, rb)]
                            if not lab:
                                rel = {'<': '>=', '>=': '<', '<=': '>', '>': '<='}[rel]
                            acked.append((s_, t_, rel))
                if val == 0:
                    good = [(s_, t_) for s_, t_, rel in acked if rel == '<']
                    ok = bool(good) and P.every_path_passes(None, (bb, si), via_edges=good, from_entry=True)
                    rep.check(ok, 'R02.4', 'handle_ack_nack/repair-off', 'repair off only when last written < acked-before', 'an ACKNACK can switch repair off although not everything is acknowledged', ha2.where(bb, si))
                elif val == 1:
                    # then the repair timer is armed on every path
                    arm = [(ab, 'term') for ab, t in ha2.calls() if callee_res(t).endswith('set_timeout') and term_has(og.of_operand(t['args'][2], ab, 'term'), lambda y: y[0] == 'agg' and str(y[1]).endswith('SendRepairData'))]
                    ok = bool(arm)
                    for r in ha2.return_blocks():
                        if P.can_reach((bb, si), (r, 'term'), avoid_pos=arm):
                            ok = False
                    rep.check(ok, 'R02.4', 'handle_ack_nack/repair-on-armed', 'repair_mode := true is followed by arming SendRepairData', 'repair mode is switched on without arming the repair timer', ha2.where(bb, si))
    rep.floor('R02.4', n_rm, 2, 'stores to repair_mode in handle_ack_nack')
    # reader: HEARTBEAT without final flag, or with something missing, is answered
    hb = fx.find('rtps::reader::Reader::handle_heartbeat_msg')
    cl = [c for c in fx.closures_of(hb) if any(call_matches(t, 'RtpsWriterProxy::missing_seqnums') for _, t in c.calls())]
    if cl:
        c = cl[0]
        rep.analysed(c)
        og = Origins(c, summaries=True)
        P = Pos(c)
        send = [(bb, 'term') for bb, t in c.calls() if call_matches(t, 'Reader::send_acknack_to')]
        need = []
        for s_, t_, cond, lab in switch_edges(c, fx, og):
            if cond[0] == 'call' and cond[1].endswith('::is_empty') and has_call(cond, 'missing_seqnums') and lab is False:
                need.append((s_, t_))
            if cond[0] == 'un' and cond[1] == 'Not' and lab is True and term_has(cond, lambda x: x[0] == 'captured' and 'final' in x[1]):
                need.append((s_, t_))
            if cond[0] == 'captured' and 'final' in cond[1] and lab is False:
                need.append((s_, t_))
            if cond[0] == 'field' and 'final' in cond[1] and lab is False:
                need.append((s_, t_))
        ok = bool(send) and bool(need)
        for s_, t_ in need:
            for r in c.return_blocks():
                if P.can_reach((t_, 0), (r, 'term'), avoid_pos=send):
                    ok = False
        rep.check(ok, 'R02.4', 'handle_heartbeat_msg/answers', 'missing numbers or a non-final HEARTBEAT => ACKNACK sent',
                  'a HEARTBEAT that shows missing samples (or is not final) is not always answered with an ACKNACK', c.where())

    # ------------------------------------------------------------ R02.6
    rep.rule('R02.6', 'a pushed sample stays requested until it is acknowledged: RtpsReaderProxy::mark_change_sent is called only by the repair worker (answering an ACKNACK), the unsent set is '
                      'otherwise pruned only by remove_from_unsent_set_all_before (ACKNACK base / history floor), and every new sample is registered with every reader proxy; this leftover '
                      'entry is what repairs a partially received fragmented sample, because NACKFRAGs are not forwarded to the writer')
    callers = sorted(set(b.key for b, _bb, _t in fx.callers_of('RtpsReaderProxy::mark_change_sent')))
    allowed = ('rtps::writer::Writer::handle_repair_data_send_worker',)
    extra = [c for c in callers if not c.startswith(allowed)]
    rep.check(bool(callers) and not extra, 'R02.6', 'mark_change_sent/callers', 'called only from the repair worker (%d site(s))' % len(callers),
              'mark_change_sent is called outside the repair worker (%s): a sample pushed once is forgotten before the reader acknowledged it; if some of its fragments were lost, '
              'the next ACKNACK finds nothing to repair, repair mode is switched off and the sample is never completed' % ', '.join(extra), '')
    pw = fx.find('rtps::writer::Writer::process_writer_command')
    rep.analysed(pw)
    ogp = Origins(pw, summaries=False)
    reg = [(bb, t) for bb, t in pw.calls() if callee_res(t).endswith('RtpsReaderProxy::notify_new_cache_change')]
    ok_reg = False
    for bb, t in reg:
        recv = ogp.of_operand(t['args'][0], bb, 'term')
        # the receiver is the item of an iteration over self.readers (values_mut / iter_mut), not a filtered subset
        it_all = term_has(recv, lambda x: x[0] == 'call' and x[1].endswith('::next')) and term_has(recv, lambda x: x[0] == 'field' and x[1] == 'readers') and \
            not term_has(recv, lambda x: x[0] == 'call' and x[1].rsplit('::', 1)[-1] in ('filter', 'take', 'skip', 'take_while', 'filter_map', 'find'))
        ok_reg = ok_reg or it_all
    rep.check(ok_reg, 'R02.6', 'process_writer_command/registered-with-all-readers', 'notify_new_cache_change for every element of self.readers',
              'a new sample is not registered as unsent with every reader proxy', pw.where())

    # ... and registering has an effect: notify_new_cache_change(sn) puts sn into the proxy's unsent set on every path (mutation triage)
    nn = fx.find('rtps::rtps_reader_proxy::RtpsReaderProxy::notify_new_cache_change')
    rep.analysed(nn)
    ogn = Origins(nn, summaries=False)
    ins = [(bb, 'term') for bb, t in nn.calls() if callee_res(t).endswith('::insert') and has_field(ogn.of_operand(t['args'][0], bb, 'term'), 'unsent_changes') and
           ogn.of_operand(t['args'][1], bb, 'term') == ('param', 2)]
    okn = len(ins) == 1 and all(Pos(nn).every_path_passes(None, (r, 'term'), via_pos=ins, from_entry=True) for r in nn.return_blocks())
    rep.check(okn, 'R02.6', 'notify_new_cache_change/records', 'unsent_changes.insert(sequence_number) on every path',
              'notify_new_cache_change does not put the new sequence number into the unsent set of the reader proxy on every path: a pushed sample that is lost is not offered again '
              'by the repair worker until the reader asks for exactly that number', nn.where())

    # ------------------------------------------------------------ R02.5 (shared with C01 R01.6 / C03 R03.6)
    rep.rule('R02.5', 'GAP bookkeeping at the reader: an exclusive "..._before" bound (gapList.base, HEARTBEAT.first) used as the end of an inclusive range is decremented; otherwise a sample the '
                      'writer still holds is marked unavailable, never requested and acknowledged: the pair goes quiet with the sample missing for good')
    from rules.C01 import rule_exclusive_bound
    rule_exclusive_bound(rep, fx, 'R02.5')

    # ------------------------------------------------------------ mechanisms decided under C03 / C04 that convergence needs just as much
    # (after the mutation matrix and seed C02e: a mutant of the ACKNACK base, of the request going out, of the repair worker or of the unsent-set pruning broke
    # convergence and was reported only by ./check C03 or ./check C04)
    from rdv import report as _report
    _report.borrow(rep, facts, tier, 'C03', {'R03.3': 'R02.7', 'R03.9': 'R02.8', 'R03.12': 'R02.9', 'R03.1': 'R02.27', 'R03.11': 'R02.28', 'R03.14': 'R02.30'})
    _report.borrow(rep, facts, tier, 'C01', {'R01.14': 'R02.17', 'R01.15': 'R02.23'})
    _report.borrow(rep, facts, tier, 'C04', {'R04.1': 'R02.10', 'R04.4': 'R02.11', 'R04.6': 'R02.12', 'R04.13': 'R02.15', 'R04.9': 'R02.18', 'R04.10': 'R02.19', 'R04.11': 'R02.20', 'R04.14': 'R02.22', 'R04.15': 'R02.29', 'R04.16': 'R02.31'})
    # a fragmented sample counts as received only when every fragment is (decided under C05; after seed C02h: completeness by arrival count let a duplicate stand in for a lost
    # fragment, the sample was acknowledged with a hole in it and repair stopped)
    _report.borrow(rep, facts, tier, 'C05', {'R05.1': 'R02.32'})

    # ------------------------------------------------------------ R02.13 (mutation triage: `!=` -> `==` / `&&` -> `||` in the destination filter survived every check and the suite)
    from rules import destfilter
    destfilter.run_rule(rep, fx, 'R02.13', 'default', floor=2)

    # ------------------------------------------------------------ R02.14 (mutation triage: `final_flag = true` in the periodic HEARTBEAT survived)
    rule_heartbeat_solicits(rep, fx, 'R02.14')

    # ------------------------------------------------------------ R02.15 = R04.13 (borrowed below); R02.16 (mutants deleting irrelevant_changes_up_to / its body survived C01-C04)
    rule_unavailability_applied(rep, fx, 'R02.16')
    rule_handler_admission(rep, fx, 'R02.21')
    # R02.24 (mutation triage: every one-token mutant of the reader selection for submessages with reader id UNKNOWN survived all checks)
    from rules import dispatch
    dispatch.run_rule(rep, fx, 'R02.24', 'default', floor=1)
    dispatch.run_kinds(rep, fx, 'R02.25', 'default')
    dispatch.run_fresh_state(rep, fx, 'R02.26')



def rule_heartbeat_solicits(rep, fx, rid):
    """A reliable stateful Writer learns what a Reader has only from ACKNACKs, and a Reader that misses nothing answers a HEARTBEAT only if its Final flag is clear."""
    rep.rule(rid, 'heartbeats solicit an answer: every MessageBuilder::heartbeat_msg call of rtps::Writer passes set_final_flag = false; heartbeat_msg sets HEARTBEAT_Flags::Final only '
                  'under its set_final_flag parameter; the MessageReceiver hands handle_heartbeat_msg `flags.contains(Final)` of the flags that came with that HEARTBEAT; and the '
                  'Reader answers whenever something is missing or the flag is clear (R02.4). Otherwise a Reader that received everything by push never acknowledges: the '
                  'HEARTBEATs never stop and wait_for_acknowledgments never completes')
    hb = fx.find('rtps::message::MessageBuilder::heartbeat_msg')
    rep.analysed(hb)
    pidx = [l for l in hb.local_by_name('set_final_flag') if 1 <= l <= hb.argc]
    if len(pidx) != 1:
        raise CheckBroken('heartbeat_msg has no parameter named set_final_flag')
    pidx = pidx[0]
    n = 0
    for b in fx.bodies:
        if not b.key.startswith('rtps::writer::'):
            continue
        og = None
        for bb, t in b.calls():
            if not call_matches(t, 'MessageBuilder::heartbeat_msg'):
                continue
            og = og or Origins(b, summaries=False)
            n += 1
            v = og.of_operand(t['args'][pidx - 1], bb, 'term')
            ok = v[0] == 'const' and v[1] in ('int', 'bool') and str(v[2]) in ('false', '0', 'False')
            rep.check(ok, rid, '%s/final-flag#%d' % (b.key.rsplit('::', 1)[-1], n), 'set_final_flag = false',
                      '%s sends a HEARTBEAT whose Final flag is %s instead of a constant false: a reader that misses nothing does not answer it, so the writer never learns that the samples arrived' %
                      (b.key.rsplit('::', 1)[-1], term_str(v)), b.where(bb))
    rep.floor(rid, n, 4, 'heartbeat_msg calls in rtps::writer')
    # the builder: Final inserted only under the parameter
    og = Origins(hb, summaries=False)
    P = Pos(hb)
    edges = list(switch_edges(hb, fx, og))
    t_edges = [(s_, t_) for s_, t_, cond, lab in edges if lab is True and cond == ('param', pidx)]
    f_edges = [(s_, t_) for s_, t_, cond, lab in edges if lab is False and cond == ('param', pidx)]
    ins = []
    for bb, t in hb.calls():
        if callee_res(t).endswith('BitFlags::<T>::insert') and len(t['args']) == 2:
            v = og.of_operand(t['args'][1], bb, 'term')
            if term_has(v, lambda x: x[0] == 'agg' and str(x[1]).endswith('HEARTBEAT_Flags::Final')):
                ins.append(bb)
    ok = bool(ins) and bool(t_edges) and all(P.every_path_passes((0, 0), (bb, 'term'), via_edges=t_edges, from_entry=True) for bb in ins)
    ok = ok and all(not P.can_reach((t_, 0), (bb, 'term')) for s_, t_ in f_edges for bb in ins)
    rep.check(ok, rid, 'heartbeat_msg/final-under-parameter', 'insert(Final) exactly under set_final_flag',
              'MessageBuilder::heartbeat_msg sets the Final flag on a path where set_final_flag is false (or never): the flag on the wire is not the one the Writer asked for', hb.where(ins[0] if ins else 0))
    # the receiver: flag of the very heartbeat
    hw = fx.find('rtps::message_receiver::MessageReceiver::handle_writer_submessage')
    og = Origins(hw, summaries=False)
    m = 0
    for bb, t in hw.calls():
        if call_matches(t, 'Reader::handle_heartbeat_msg'):
            m += 1
            v = og.of_operand(t['args'][2], bb, 'term')
            ok = v[0] == 'call' and v[1].endswith('::contains') and term_has(v, lambda x: x[0] == 'agg' and str(x[1]).endswith('HEARTBEAT_Flags::Final')) and \
                term_has(v, lambda x: x[0] == 'variant' and x[1] == 'Heartbeat')
            rep.check(ok, rid, 'handle_writer_submessage/final-flag-read#%d' % m, 'final_flag_set = flags.contains(Final) of this HEARTBEAT',
                      'the Reader is told final_flag_set = %s instead of the Final flag of the HEARTBEAT it is handed' % term_str(v)[:120], hw.where(bb))
    rep.floor(rid, m, 1, 'handle_heartbeat_msg call in the MessageReceiver')


def rule_unavailability_applied(rep, fx, rid):
    """R03.12 decides what irrelevant_changes_range / set_irrelevant_change do; this rule decides that the two handlers call them with what the writer declared."""
    rep.rule(rid, 'declared unavailability takes effect: the HEARTBEAT worker calls irrelevant_changes_up_to(heartbeat.first_sn) on the proxy on every path to the missing-number scan '
                  'and the marker update (only the stale-count exit skips it), irrelevant_changes_up_to(x) is irrelevant_changes_range(c <= 1, x) on every path; handle_gap_msg calls '
                  'irrelevant_changes_range(gap.gap_start, gap.gap_list.base()) and set_irrelevant_change for every member of gap.gap_list.iter() on every path from the validity '
                  'checks to the marker update')
    R = 'rtps::reader::Reader::'
    hb = fx.find(R + 'handle_heartbeat_msg')
    rep.analysed(hb)
    n = 0
    for c in fx.closures_of(hb):
        og = Origins(c, summaries=False)
        up = []
        for bb, t in c.calls():
            if call_matches(t, 'RtpsWriterProxy::irrelevant_changes_up_to'):
                v = resolve_captures(fx, c, og.of_operand(t['args'][1], bb, 'term'), summaries=False)
                up.append((bb, has_field(v, 'first_sn')))
        uses = [(bb, 'term') for bb, t in c.calls() if call_matches(t, 'RtpsWriterProxy::missing_seqnums', 'mark_reliably_received_before')]
        if not uses and not up:
            continue
        n += 1
        P = Pos(c)
        ok = bool(up) and all(g for _, g in up) and bool(uses)
        for u in uses:
            if not P.every_path_passes(None, u, via_pos=[(bb, 'term') for bb, _ in up], from_entry=True):
                ok = False
        rep.check(ok, rid, 'handle_heartbeat_msg/first-sn-applied', 'irrelevant_changes_up_to(heartbeat.first_sn) before the scan and the marker update',
                  'the HEARTBEAT worker does not apply heartbeat.first_sn to the writer proxy before it scans for missing numbers / moves the marker: samples the writer no longer '
                  'has stay "missing", the reader requests them forever and never hands over what follows', c.where(up[0][0]) if up else c.where())
    rep.floor(rid, n, 1, 'HEARTBEAT worker closures')
    b = fx.find('rtps::rtps_writer_proxy::RtpsWriterProxy::irrelevant_changes_up_to')
    rep.analysed(b)
    og = Origins(b, summaries=False)
    P = Pos(b)
    rc = []
    for bb, t in b.calls():
        if call_matches(t, 'RtpsWriterProxy::irrelevant_changes_range'):
            a1 = og.of_operand(t['args'][1], bb, 'term')
            a2 = og.of_operand(t['args'][2], bb, 'term')
            lo = [x for x in term_leaves(a1) if x[0] != 'call']
            good = a2 == ('param', 2) and a1[0] == 'call' and a1[1].endswith(('SequenceNumber::new', '::from', 'SequenceNumber::zero', 'default')) and \
                bool(lo) and all(x[0] == 'const' and str(x[2]).lstrip('-').isdigit() and int(x[2]) <= 1 for x in lo)
            rc.append((bb, good))
    ok = len(rc) == 1 and rc[0][1] and all(P.every_path_passes(None, (r, 'term'), via_pos=[(rc[0][0], 'term')], from_entry=True) for r in b.return_blocks())
    rep.check(ok, rid, 'irrelevant_changes_up_to/range-from-start', 'irrelevant_changes_range(c <= 1, smallest_seqnum) on every path',
              'irrelevant_changes_up_to(x) does not mark everything below x as irrelevant (on every path)', b.where())
    g = fx.find(R + 'handle_gap_msg')
    rep.analysed(g)
    og = Origins(g, summaries=False)
    P = Pos(g)
    edges = list(switch_edges(g, fx, og))
    rng = []
    for bb, t in g.calls():
        if call_matches(t, 'RtpsWriterProxy::irrelevant_changes_range'):
            a1 = og.of_operand(t['args'][1], bb, 'term')
            a2 = og.of_operand(t['args'][2], bb, 'term')
            rng.append((bb, has_field(a1, 'gap_start') and a2[0] == 'call' and a2[1].endswith('::base') and has_field(a2, 'gap_list')))
    marks = [(bb, 'term') for bb, t in g.calls() if call_matches(t, 'mark_reliably_received_before')]
    ok = len(rng) == 1 and rng[0][1] and bool(marks)
    why = 'range call'
    for m in marks:
        if rng and not P.every_path_passes(None, m, via_pos=[(rng[0][0], 'term')], from_entry=True):
            ok = False
    # the loop over the explicit list
    nl = 0
    for lp in natural_loops(g):
        blocks = lp[1]
        nxt = [(bb, t) for bb, t in g.calls() if bb in blocks and callee_res(t).endswith('::next') and
               term_has(og.of_operand(t['args'][0], bb, 'term'), lambda x: x[0] == 'call' and x[1].endswith('::iter') and has_field(x, 'gap_list'))]
        if not nxt:
            continue
        nl += 1
        nb = nxt[0][0]
        some = [(s_, t_) for s_, t_, cond, lab in edges if lab == 'Some' and s_ in blocks and cond[0] == 'discr' and cond[1][0] == 'call' and cond[1][1].endswith('::next')]
        sets = []
        for bb, t in g.calls():
            if bb in blocks and call_matches(t, 'RtpsWriterProxy::set_irrelevant_change'):
                v = og.of_operand(t['args'][1], bb, 'term')
                if term_has(v, lambda x: x[0] == 'variant' and x[1] == 'Some') and has_call(v, '::next'):
                    sets.append((bb, 'term'))
        if not some or not sets or any(P.can_reach((t_, 0), (nb, 'term'), avoid_pos=sets) for s_, t_ in some):
            ok = False
            why = 'a member of gap_list is skipped'
        for m in marks:
            if not P.every_path_passes(None, m, via_pos=[(nb, 'term')], from_entry=True):
                ok = False
                why = 'the marker update can be reached without going through the list'
    ok = ok and nl == 1
    rep.check(ok, rid, 'handle_gap_msg/gap-applied', 'range [gap_start, gap_list.base()) and every listed number marked irrelevant before the marker update',
              'handle_gap_msg does not apply the whole GAP to the writer proxy (%s): numbers the writer declared unavailable stay missing, the reader requests them again and '
              'again and the samples behind them are never handed over' % why, g.where(rng[0][0]) if rng else g.where())


def rule_handler_admission(rep, fx, rid):
    """Which HEARTBEATs / GAPs the Reader acts upon, as decision tables over the tests in front of the worker (rdv/boolform: every assignment of the atoms)."""
    from rdv import boolform
    rep.rule(rid, 'handler admission: handle_heartbeat_msg reaches its worker (with_mutable_writer_proxy) exactly when the Reader is not BestEffort, not stateless-like and knows the '
                  'writer, and returns without effect otherwise; handle_gap_msg reaches irrelevant_changes_range whenever the Reader is not stateless-like, knows the writer and '
                  'gap_start > 0 and gap_list.base() > 0, and never for a stateless-like Reader or an unknown writer (decision tables over these tests, all assignments; what '
                  'happens to an invalid GAP is left open); with_mutable_writer_proxy runs the worker on the detached proxy and '
                  'puts it back on every path, its panic lies behind "the re-insert found another proxy"')
    R = 'rtps::reader::Reader::'

    def namer_call(t, og, bb):
        cr = callee_res(t)
        last = cr.rsplit('::', 1)[-1]
        if last in ('eq', 'ne') and len(t['args']) == 2:
            txt = ' '.join(term_str(og.of_operand(x, bb, 'term')) for x in t['args'])
            if 'reliability' in txt and 'BestEffort' in txt:
                return last + ':besteffort'
        if last == 'contains_key' and has_field(og.of_operand(t['args'][0], bb, 'term'), 'matched_writers'):
            return 'knows'
        if last in ('le', 'lt', 'gt', 'ge') and len(t['args']) == 2:
            a, b_ = (og.of_operand(x, bb, 'term') for x in t['args'])
            ks = [str(x[2]) for x in term_leaves(b_) if x[0] == 'const'] if not term_has(b_, lambda x: x[0] in ('field', 'param')) else []
            # over the integers  x <= 0  is  x < 1  and  x > 0  is  x >= 1
            op = {('le', '0'): 'le', ('lt', '1'): 'le', ('gt', '0'): 'gt', ('ge', '1'): 'gt'}.get((last, ks[0]), 'other') if len(ks) == 1 else None
            if op and has_field(a, 'gap_start'):
                return op + ':gap_start'
            if op and has_call(a, '::base') and has_field(a, 'gap_list'):
                return op + ':base'
        return None

    def namer_discr(cond):
        if cond == ('field', 'like_stateless', ('param', 1)):
            return 'stateless'
        if cond[0] == 'un' and cond[1] == 'Not' and cond[2] == ('field', 'like_stateless', ('param', 1)):
            return '!stateless'
        if cond[0] == 'discr' and has_call(cond[1], 'matched_writer_mut'):
            return 'proxy'
        return None

    def truth(assign, name):
        """value of the positive fact `name` under an assignment of the atoms as written in the code"""
        for k, v in assign.items():
            if k == name:
                return v
            if k == '!' + name:
                return not v
            if ':' in k and k.split(':', 1)[1] == name:
                op = k.split(':', 1)[0]
                return v if op in ('eq', 'le') else (not v if op in ('ne', 'gt') else None)
        return None

    # ---- HEARTBEAT
    hb = fx.find(R + 'handle_heartbeat_msg')
    rep.analysed(hb)
    wk = [bb for bb, t in hb.calls() if call_matches(t, 'Reader::with_mutable_writer_proxy')]
    if len(wk) != 1:
        raise CheckBroken('handle_heartbeat_msg: expected one with_mutable_writer_proxy call, found %d' % len(wk))
    T = boolform.table(hb, fx, namer_call, namer_discr, stop_blocks={wk[0]: 'processed'})
    names = {a.split(':')[-1].lstrip('!') for a in T.atoms}
    bad = []
    if not {'besteffort', 'stateless', 'knows'} <= names:
        bad.append('tests found: %s' % sorted(names))
    else:
        import itertools
        for vals in itertools.product((False, True), repeat=len(T.atoms)):
            assign = dict(zip(T.atoms, vals))
            be, sl, kn = truth(assign, 'besteffort'), truth(assign, 'stateless'), truth(assign, 'knows')
            want = 'processed' if (not be and not sl and kn) else False
            got = T.eval(assign)
            if got != want:
                bad.append('BestEffort=%s stateless=%s knows-writer=%s -> %s' % (be, sl, kn, 'ignored' if got is False else got))
    rep.check(not bad, rid, 'handle_heartbeat_msg/admission', 'processed <=> reliable AND stateful AND writer known (8 assignments)',
              'handle_heartbeat_msg does not act on exactly the HEARTBEATs of known writers in a reliable stateful Reader (%s): a reliable Reader that ignores HEARTBEATs never '
              'requests what it lost' % '; '.join(bad[:3]), hb.where())
    # ---- GAP
    g = fx.find(R + 'handle_gap_msg')
    rep.analysed(g)
    rg = [bb for bb, t in g.calls() if call_matches(t, 'RtpsWriterProxy::irrelevant_changes_range')]
    if len(rg) != 1:
        raise CheckBroken('handle_gap_msg: expected one irrelevant_changes_range call, found %d' % len(rg))
    T = boolform.table(g, fx, namer_call, namer_discr, stop_blocks={rg[0]: 'processed'})
    names = {a.split(':')[-1].lstrip('!') for a in T.atoms}
    bad = []
    if not {'stateless', 'proxy', 'gap_start', 'base'} <= names:
        bad.append('tests found: %s' % sorted(names))
    else:
        import itertools
        dom = {a: (('None', 'Some') if a == 'proxy' else (False, True)) for a in T.atoms}
        for vals in itertools.product(*[dom[a] for a in T.atoms]):
            assign = dict(zip(T.atoms, vals))
            sl = truth(assign, 'stateless')
            nonpos_start, nonpos_base = truth(assign, 'gap_start'), truth(assign, 'base')      # "x <= 0"
            want = 'processed' if (not sl and assign['proxy'] == 'Some' and not nonpos_start and not nonpos_base) else None
            got = T.eval(assign)
            if not sl and assign['proxy'] == 'Some' and (nonpos_start is not False or nonpos_base is not False):
                continue        # what happens to an invalid GAP (or under a validity test of another form) is not this property's matter
            if got != want:
                bad.append('stateless=%s proxy=%s gap_start<=0:%s base<=0:%s -> %s' % (sl, assign['proxy'], nonpos_start, nonpos_base, 'ignored' if got is None else got))
    rep.check(not bad, rid, 'handle_gap_msg/admission', 'stateful AND writer known AND gap_start > 0 AND gap_list.base() > 0 => processed; stateless or unknown writer => ignored (16 assignments)',
              'handle_gap_msg does not act on exactly the valid GAPs of known writers (%s): numbers declared unavailable stay missing for ever, or an invalid GAP is applied' %
              '; '.join(bad[:3]), g.where())
    # ---- the wrapper
    w = fx.find(R + 'with_mutable_writer_proxy')
    rep.analysed(w)
    og = Origins(w, summaries=False)
    P = Pos(w)
    edges = list(switch_edges(w, fx, og))
    some = [(s_, t_) for s_, t_, cond, lab in edges if lab == 'Some' and cond[0] == 'discr' and cond[1][0] == 'call' and cond[1][1].endswith('::remove') and has_field(cond[1], 'matched_writers')]
    work = [(bb, 'term') for bb, t in w.calls() if t['f'].get('rk') in ('fnptr', 'param', 'closure', 'dyn') or callee_res(t).endswith(('FnOnce::call_once', 'FnMut::call_mut', 'Fn::call'))]
    back = [(bb, 'term') for bb, t in w.calls() if callee_res(t).endswith('::insert') and has_field(og.of_operand(t['args'][0], bb, 'term'), 'matched_writers')]
    ok = len(some) == 1 and bool(work) and bool(back)
    why = 'shape'
    for s_, t_ in some:
        for r in w.return_blocks():
            if P.can_reach((t_, 0), (r, 'term'), avoid_pos=work) or P.can_reach((t_, 0), (r, 'term'), avoid_pos=back):
                ok = False
                why = 'a path from the detached proxy to the return skips the worker or the re-insert'
    dup = [(s_, t_) for s_, t_, cond, lab in edges if (cond[0] == 'call' and cond[1].endswith('::is_some') and lab is True and has_call(cond, '::insert')) or
           (cond[0] == 'discr' and lab == 'Some' and cond[1][0] == 'call' and cond[1][1].endswith('::insert'))]
    for bb, t in w.calls():
        cr = callee_res(t)
        if 'panic' in cr or cr.endswith(('begin_panic', 'panic_fmt', 'unreachable_display', 'expect_failed', 'unwrap_failed')):
            if not dup or not P.every_path_passes(None, (bb, 'term'), via_edges=dup, from_entry=True):
                ok = False
                why = 'the panic is reachable without a duplicate proxy having been found'
    rep.check(ok, rid, 'with_mutable_writer_proxy/runs-and-reattaches', 'proxy detached => worker(proxy) and re-insert on every path; panic only behind insert(..).is_some()',
              'with_mutable_writer_proxy does not run the worker on the detached writer proxy and put it back (%s): the HEARTBEAT is lost with the proxy, or the event loop panics on '
              'every HEARTBEAT' % why, w.where())
