"""C02  Reliable writer/reader pair converges after any finite loss, then goes quiet.

Convergence over fault schedules and timer races is NOT decided (no sound static argument in
reach bounds it). Decided are structural necessary conditions: the request path from a
received ACKNACK to the writer exists, periodic and repair timers are re-armed, HEARTBEATs
are suppressed only when everything is acknowledged, and repair switches off only when
nothing is left to send.
"""
from rdv.core import (CheckBroken, Origins, Pos, call_matches, callee_res, natural_loops, norm_path, primary_edges,
                      resolve_captures, strip_generics, switch_edges, term_has, term_leaves, term_str)
from rules import C20

CONFIGS = ['default']
LEVEL = 'other'

W = 'rtps::writer::Writer::'


def has_field(t, name):
    return term_has(t, lambda x: x[0] == 'field' and x[1] == name)


def has_call(t, suffix):
    return term_has(t, lambda x: x[0] == 'call' and x[1].endswith(suffix))


def run(rep, facts, tier):
    fx = facts['default']
    rep.explanation = ('Handler completeness and pairing rules: ACKNACK -> acknack channel -> Writer::handle_ack_nack (drained until empty); every periodic timer arm re-arms its '
                       'timer, the repair arms re-arm while repair is pending; the heartbeat is suppressed only under last_written < acked_before for every reader (same role-pair '
                       'normalisation as C20); repair mode is switched off only when the unsent set is empty or everything is acknowledged.')
    rep.assume('mio timer delivers re-armed timeouts; UDP send reaches the socket', 'convergence in a bounded number of rounds and silence as a duration are not decided')
    rep.rule('R02.1', 'request path: the AckNack arm of handle_reader_submessage sends AckSubmessage::AckNack on the acknack channel; the event loop drains that channel until '
                      'empty and hands every item to Writer::handle_ack_nack of the addressed writer')
    rep.rule('R02.2', 'timer re-arm: Heartbeat and CacheCleaning arms re-arm on every path (Heartbeat: whenever a period is configured); SendRepairData / SendRepairFrags re-arm '
                      'exactly while repair_mode / repair_frags_requested()')
    rep.rule('R02.3', 'heartbeat suppression and repair switch-off use S < B (last written < acked-before): never suppressed while the newest sample is unacknowledged')
    rep.rule('R02.4', 'goes quiet / keeps going: repair_mode := false only when the unsent set is empty or all is acknowledged; := true and the repair timer armed otherwise; '
                      'the reader answers every non-final or informative HEARTBEAT with an ACKNACK')

    # ------------------------------------------------------------ R02.1
    hr = fx.find('rtps::message_receiver::MessageReceiver::handle_reader_submessage')
    rep.analysed(hr)
    og = Origins(hr, summaries=True)
    P = Pos(hr)
    an = [(s_, t_) for s_, t_, cond, lab in primary_edges(hr, list(switch_edges(hr, fx, og))) if lab == 'AckNack']
    snd = []
    for bb, t in hr.calls():
        if callee_res(t).endswith('try_send') and has_field(og.of_operand(t['args'][0], bb, 'term'), 'acknack_sender'):
            v = og.of_operand(t['args'][1], bb, 'term')
            if term_has(v, lambda x: x[0] == 'agg' and str(x[1]).endswith('AckSubmessage::AckNack')) and has_field(v, 'source_guid_prefix'):
                snd.append((bb, 'term'))
    ok = bool(an) and bool(snd)
    for s_, t_ in an:
        for r in hr.return_blocks():
            if P.can_reach((t_, 0), (r, 'term'), avoid_pos=snd):
                ok = False
    rep.check(ok, 'R02.1', 'handle_reader_submessage/acknack-forwarded', 'AckNack => acknack_sender.try_send((source prefix, AckSubmessage::AckNack(..)))',
              'a received ACKNACK is not always forwarded (with the source guid prefix) on the acknack channel: the writer never learns what is missing', hr.where())
    ha = fx.find('rtps::dp_event_loop::DPEventLoop::handle_writer_acknack_action')
    rep.analysed(ha)
    og = Origins(ha, summaries=True)
    P = Pos(ha)
    recv = [bb for bb, t in ha.calls() if callee_res(t).endswith('try_recv') and has_field(og.of_operand(t['args'][0], bb, 'term'), 'ack_nack_receiver')]
    calls = [(bb, t) for bb, t in ha.calls() if call_matches(t, 'Writer::handle_ack_nack')]
    ok = bool(recv) and bool(calls)
    loops = natural_loops(ha)
    for rb in recv:
        inner = None
        for h, blocks, _src in loops:
            if rb in blocks and (inner is None or len(blocks) < len(inner)):
                inner = blocks
        if inner is None:
            ok = False
            continue
        okedges = [(s_, t_) for s_, t_, cond, lab in switch_edges(ha, fx, og) if lab == 'Ok' and term_has(cond, lambda x: x[0] == 'call' and len(x) > 3 and x[3] == rb)]
        exits = [(b_, s_) for b_ in inner for s_ in ha.succs(b_) if s_ not in inner]
        for _s, tg in okedges:
            for eb, es in exits:
                if P.can_reach((tg, 0), (eb, 'term'), avoid_pos=[(rb, 'term')]) or tg == eb:
                    ok = False
    for bb, t in calls:
        a1 = og.of_operand(t['args'][1], bb, 'term')
        a2 = og.of_operand(t['args'][2], bb, 'term')
        ok = ok and term_has(a1, lambda x: x[0] == 'call' and x[1].endswith('try_recv')) and term_has(a2, lambda x: x[0] == 'call' and x[1].endswith('try_recv'))
        w = og.of_operand(t['args'][0], bb, 'term')
        ok = ok and has_field(w, 'writers') and has_call(w, 'writer_id')
    rep.check(ok, 'R02.1', 'handle_writer_acknack_action/drain-and-dispatch', 'channel drained until empty; each item to handle_ack_nack of the writer it names',
              'the acknack channel is not drained until empty, or an item is not handed to the writer named by its writer_id', ha.where())

    # ------------------------------------------------------------ R02.2
    ht = fx.find(W + 'handle_timed_event')
    rep.analysed(ht)
    og = Origins(ht, summaries=True)
    P = Pos(ht)
    arms = {}
    for s_, t_, cond, lab in primary_edges(ht, list(switch_edges(ht, fx, og))):
        if isinstance(lab, str) and lab in ('Heartbeat', 'CacheCleaning', 'SendRepairData', 'SendRepairFrags') and 'TimedEvent' in (cond[2] or ''):
            arms[lab] = (s_, t_)
    missing = [a for a in ('Heartbeat', 'CacheCleaning', 'SendRepairData', 'SendRepairFrags') if a not in arms]
    if missing:
        raise CheckBroken('handle_timed_event: arms not found: %s' % missing)
    polls = [(bb, 'term') for bb, t in ht.calls() if callee_res(t).endswith('::poll') and has_field(og.of_operand(t['args'][0], bb, 'term'), 'timed_event_timer')]
    rearm = {}
    for bb, t in ht.calls():
        if callee_res(t).endswith('set_timeout') and has_field(og.of_operand(t['args'][0], bb, 'term'), 'timed_event_timer'):
            ev = og.of_operand(t['args'][2], bb, 'term')
            for x in term_leaves(ev):
                if x[0] == 'agg' and 'TimedEvent::' in str(x[1]):
                    rearm.setdefault(str(x[1]).rsplit('::', 1)[-1], []).append((bb, 'term'))
    edges = list(switch_edges(ht, fx, og))
    for arm, (s_, tg) in sorted(arms.items()):
        rs = rearm.get(arm, [])
        exempt = []
        if arm == 'Heartbeat':
            exempt = [(a, b) for a, b, cond, lab in edges if lab == 'None' and has_field(cond, 'heartbeat_period')]
        if arm == 'SendRepairData':
            exempt = [(a, b) for a, b, cond, lab in edges if (cond[0] == 'field' and cond[1] == 'repair_mode' and lab is False) or (lab == 'None' and has_call(cond, 'lookup_reader_proxy_mut'))]
        if arm == 'SendRepairFrags':
            exempt = [(a, b) for a, b, cond, lab in edges if (cond[0] == 'call' and cond[1].endswith('repair_frags_requested') and lab is False) or (lab == 'None' and has_call(cond, 'lookup_reader_proxy_mut'))]
        ok = bool(rs) and bool(polls)
        for p in polls + [(r, 'term') for r in ht.return_blocks()]:
            if P.can_reach((tg, 0), p, avoid_pos=rs, avoid_edges=exempt):
                ok = False
        rep.check(ok, 'R02.2', 'handle_timed_event/%s/re-arm' % arm, 'timer re-armed on every path (except: %s)' % {'Heartbeat': 'no period configured', 'SendRepairData': 'repair finished / reader gone',
                                                                                                                'SendRepairFrags': 'no frags requested / reader gone'}.get(arm, 'none'),
                  'the %s timer arm can finish without re-arming its timer: the periodic %s would stop for ever' % (arm, {'Heartbeat': 'heartbeat', 'CacheCleaning': 'history cleaning'}.get(arm, 'repair')),
                  ht.where(tg))
        # the handler of the arm is called
        handler = {'Heartbeat': 'Writer::handle_heartbeat_tick', 'CacheCleaning': 'Writer::handle_cache_cleaning', 'SendRepairData': 'Writer::handle_repair_data_send',
                   'SendRepairFrags': 'Writer::handle_repair_frags_send'}[arm]
        hs = [(bb, 'term') for bb, t in ht.calls() if call_matches(t, handler)]
        okh = bool(hs)
        for p in polls + [(r, 'term') for r in ht.return_blocks()]:
            if P.can_reach((tg, 0), p, avoid_pos=hs):
                okh = False
        rep.check(okh, 'R02.2', 'handle_timed_event/%s/handler' % arm, '%s runs on every path of the arm' % handler, 'the %s arm does not always run %s' % (arm, handler), ht.where(tg))

    # ------------------------------------------------------------ R02.3 (shares the S/B role normalisation with C20)
    n = 0
    for key in (W + 'handle_heartbeat_tick', W + 'handle_ack_nack'):
        b0 = fx.find(key)
        for b in [b0] + fx.closures_of(b0):
            og = Origins(b, summaries=True)
            pnames = {d.get('arg'): d['name'] for d in b.j.get('dbg', []) if d.get('arg')}
            for bb, t in b.calls():
                d = strip_generics(t['f'].get('def') or '')
                m = d.rsplit('::', 1)[-1]
                if not d.startswith('std::cmp::PartialOrd::') or m not in ('lt', 'le', 'gt', 'ge') or len(t['args']) != 2 or 'SequenceNumber' not in (t['f'].get('self_ty') or ''):
                    continue
                ta = resolve_captures(fx, b, og.of_operand(t['args'][0], bb, 'term'))
                tb = resolve_captures(fx, b, og.of_operand(t['args'][1], bb, 'term'))
                ra, rb = C20.role(ta, pnames), C20.role(tb, pnames)
                if not ra or not rb or ra == rb:
                    continue
                n += 1
                rep.analysed(b)
                rel = C20.NORMAL[(m, ra, rb)]
                rep.check(rel in ('<', '>='), 'R02.3', '%s/%s(%s,%s)' % (b.key, m, ra, rb), 'S %s B' % rel,
                          'comparison %s %s %s reads as "last written %s acked-before": heartbeats / repair would stop while the newest sample is still unacknowledged '
                          '(a lost newest sample is then never repaired)' % (term_str(ta)[:50], m, term_str(tb)[:50], rel), b.where(bb))
    rep.floor('R02.3', n, 3, 'heartbeat-suppression / repair switch-off comparisons')
    # the suppression is an `all` over the readers: a single unacknowledged reader keeps the heartbeat going
    hbk = fx.find(W + 'handle_heartbeat_tick')
    og = Origins(hbk, summaries=True)
    alls = [t for bb, t in hbk.calls() if callee_res(t).endswith('::all') and has_field(og.of_operand(t['args'][0], bb, 'term'), 'readers')]
    rep.check(bool(alls), 'R02.3', 'handle_heartbeat_tick/all-readers', 'suppressed only if ALL readers have everything', 'heartbeat suppression is not a conjunction over all readers', hbk.where())

    # ------------------------------------------------------------ R02.4
    rw = fx.find(W + 'handle_repair_data_send_worker')
    rep.analysed(rw)
    og = Origins(rw, summaries=True)
    P = Pos(rw)
    none_e = [(s_, t_) for s_, t_, cond, lab in primary_edges(rw, list(switch_edges(rw, fx, og))) if lab == 'None' and cond[0] == 'discr' and has_call(cond[1], 'first_unsent_change')]
    for bb, si, st in rw.statements():
        if st['s'] == 'assign':
            pr = st['lhs'].get('p') or []
            if pr and isinstance(pr[-1], dict) and pr[-1].get('n') == 'repair_mode':
                x = st['rv'].get('x') or {}
                val = x['k'].get('v') if st['rv']['r'] == 'use' and x.get('o') == 'const' else None
                if val == 0:
                    ok = bool(none_e) and P.every_path_passes(None, (bb, si), via_edges=none_e, from_entry=True)
                    rep.check(ok, 'R02.4', 'handle_repair_data_send_worker/repair-off', 'repair_mode := false only when nothing is unsent',
                              'repair mode is switched off while requested sequence numbers are still unsent', rw.where(bb, si))
    ha2 = fx.find(W + 'handle_ack_nack')
    rep.analysed(ha2)
    og = Origins(ha2, summaries=True)
    P = Pos(ha2)
    edges = list(switch_edges(ha2, fx, og))
    n_rm = 0
    for bb, si, st in ha2.statements():
        if st['s'] == 'assign':
            pr = st['lhs'].get('p') or []
            if pr and isinstance(pr[-1], dict) and pr[-1].get('n') == 'repair_mode':
                x = st['rv'].get('x') or {}
                val = x['k'].get('v') if st['rv']['r'] == 'use' and x.get('o') == 'const' else None
                n_rm += 1
                acked = []
                for s_, t_, cond, lab in edges:
                    if cond[0] == 'call' and cond[1].startswith('std::cmp::PartialOrd::') and len(cond[2]) == 2:
                        m = cond[1].rsplit('::', 1)[-1]
                        ra, rb = C20.role(cond[2][0], {}), C20.role(cond[2][1], {})
                        if ra and rb and ra != rb:
                            rel = C20.NORMAL[(m, ra, rb)]
                            if not lab:
                                rel = {'<': '>=', '>=': '<', '<=': '>', '>': '<='}[rel]
                            acked.append((s_, t_, rel))
                if val == 0:
                    good = [(s_, t_) for s_, t_, rel in acked if rel == '<']
                    ok = bool(good) and P.every_path_passes(None, (bb, si), via_edges=good, from_entry=True)
                    rep.check(ok, 'R02.4', 'handle_ack_nack/repair-off', 'repair off only when last written < acked-before', 'an ACKNACK can switch repair off although not everything is acknowledged', ha2.where(bb, si))
                elif val == 1:
                    # then the repair timer is armed on every path
                    arm = [(ab, 'term') for ab, t in ha2.calls() if callee_res(t).endswith('set_timeout') and term_has(og.of_operand(t['args'][2], ab, 'term'), lambda y: y[0] == 'agg' and str(y[1]).endswith('SendRepairData'))]
                    ok = bool(arm)
                    for r in ha2.return_blocks():
                        if P.can_reach((bb, si), (r, 'term'), avoid_pos=arm):
                            ok = False
                    rep.check(ok, 'R02.4', 'handle_ack_nack/repair-on-armed', 'repair_mode := true is followed by arming SendRepairData', 'repair mode is switched on without arming the repair timer', ha2.where(bb, si))
    rep.floor('R02.4', n_rm, 2, 'stores to repair_mode in handle_ack_nack')
    # reader: HEARTBEAT without final flag, or with something missing, is answered
    hb = fx.find('rtps::reader::Reader::handle_heartbeat_msg')
    cl = [c for c in fx.closures_of(hb) if any(call_matches(t, 'RtpsWriterProxy::missing_seqnums') for _, t in c.calls())]
    if cl:
        c = cl[0]
        rep.analysed(c)
        og = Origins(c, summaries=True)
        P = Pos(c)
        send = [(bb, 'term') for bb, t in c.calls() if call_matches(t, 'Reader::send_acknack_to')]
        need = []
        for s_, t_, cond, lab in switch_edges(c, fx, og):
            if cond[0] == 'call' and cond[1].endswith('::is_empty') and has_call(cond, 'missing_seqnums') and lab is False:
                need.append((s_, t_))
            if cond[0] == 'un' and cond[1] == 'Not' and lab is True and term_has(cond, lambda x: x[0] == 'captured' and 'final' in x[1]):
                need.append((s_, t_))
            if cond[0] == 'captured' and 'final' in cond[1] and lab is False:
                need.append((s_, t_))
            if cond[0] == 'field' and 'final' in cond[1] and lab is False:
                need.append((s_, t_))
        ok = bool(send) and bool(need)
        for s_, t_ in need:
            for r in c.return_blocks():
                if P.can_reach((t_, 0), (r, 'term'), avoid_pos=send):
                    ok = False
        rep.check(ok, 'R02.4', 'handle_heartbeat_msg/answers', 'missing numbers or a non-final HEARTBEAT => ACKNACK sent',
                  'a HEARTBEAT that shows missing samples (or is not final) is not always answered with an ACKNACK', c.where())

    # ------------------------------------------------------------ R02.6
    rep.rule('R02.6', 'a pushed sample stays requested until it is acknowledged: RtpsReaderProxy::mark_change_sent is called only by the repair worker (answering an ACKNACK), the unsent set is '
                      'otherwise pruned only by remove_from_unsent_set_all_before (ACKNACK base / history floor), and every new sample is registered with every reader proxy; this leftover '
                      'entry is what repairs a partially received fragmented sample, because NACKFRAGs are not forwarded to the writer')
    callers = sorted(set(b.key for b, _bb, _t in fx.callers_of('RtpsReaderProxy::mark_change_sent')))
    allowed = ('rtps::writer::Writer::handle_repair_data_send_worker',)
    extra = [c for c in callers if not c.startswith(allowed)]
    rep.check(bool(callers) and not extra, 'R02.6', 'mark_change_sent/callers', 'called only from the repair worker (%d site(s))' % len(callers),
              'mark_change_sent is called outside the repair worker (%s): a sample pushed once is forgotten before the reader acknowledged it; if some of its fragments were lost, '
              'the next ACKNACK finds nothing to repair, repair mode is switched off and the sample is never completed' % ', '.join(extra), '')
    pw = fx.find('rtps::writer::Writer::process_writer_command')
    rep.analysed(pw)
    ogp = Origins(pw, summaries=False)
    reg = [(bb, t) for bb, t in pw.calls() if callee_res(t).endswith('RtpsReaderProxy::notify_new_cache_change')]
    ok_reg = False
    for bb, t in reg:
        recv = ogp.of_operand(t['args'][0], bb, 'term')
        # the receiver is the item of an iteration over self.readers (values_mut / iter_mut), not a filtered subset
        it_all = term_has(recv, lambda x: x[0] == 'call' and x[1].endswith('::next')) and term_has(recv, lambda x: x[0] == 'field' and x[1] == 'readers') and \
            not term_has(recv, lambda x: x[0] == 'call' and x[1].rsplit('::', 1)[-1] in ('filter', 'take', 'skip', 'take_while', 'filter_map', 'find'))
        ok_reg = ok_reg or it_all
    rep.check(ok_reg, 'R02.6', 'process_writer_command/registered-with-all-readers', 'notify_new_cache_change for every element of self.readers',
              'a new sample is not registered as unsent with every reader proxy', pw.where())

    # ------------------------------------------------------------ R02.5 (shared with C01 R01.6 / C03 R03.6)
    rep.rule('R02.5', 'GAP bookkeeping at the reader: an exclusive "..._before" bound (gapList.base, HEARTBEAT.first) used as the end of an inclusive range is decremented; otherwise a sample the '
                      'writer still holds is marked unavailable, never requested and acknowledged: the pair goes quiet with the sample missing for good')
    from rules.C01 import rule_exclusive_bound
    rule_exclusive_bound(rep, fx, 'R02.5')

    # ------------------------------------------------------------ mechanisms decided under C03 / C04 that convergence needs just as much
    # (after the mutation matrix and seed C02e: a mutant of the ACKNACK base, of the request going out, of the repair worker or of the unsent-set pruning broke
    # convergence and was reported only by ./check C03 or ./check C04)
    from rdv import report as _report
    _report.borrow(rep, facts, tier, 'C03', {'R03.3': 'R02.7', 'R03.9': 'R02.8', 'R03.12': 'R02.9'})
    _report.borrow(rep, facts, tier, 'C04', {'R04.1': 'R02.10', 'R04.4': 'R02.11', 'R04.6': 'R02.12'})

    # ------------------------------------------------------------ R02.13 (mutation triage: `!=` -> `==` / `&&` -> `||` in the destination filter survived every check and the suite)
    from rules import destfilter
    destfilter.run_rule(rep, fx, 'R02.13', 'default', floor=2)

