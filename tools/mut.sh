#!/bin/bash
# tools/mut.sh <file under /repo> <python-replace old> <new> <props...>  -- one-off mutation of /repo, run checks, undo.
f=$1; old=$2; new=$3; shift 3
cd /repo || exit 9
if ! git diff --quiet; then echo "repo dirty"; exit 9; fi
python3 - "$f" "$old" "$new" <<'PY' || { git checkout -- .; exit 9; }
import sys
p,old,new=sys.argv[1:4]
s=open(p).read()
if old not in s: print("pattern not found"); sys.exit(1)
open(p,'w').write(s.replace(old,new,1))
PY
cargo check --offline --lib 2>&1 | grep -E "^error" | head -3
for p in "$@"; do (cd /verif && ./check $p 2>&1 | grep -E "VIOLATION|CHECK-BROKEN|OK:|^  src" | head -8); done
git checkout -- .
