#!/usr/bin/env python3
"""Mutation campaign for the checkers (not for RustDDS): one-token mutants of the anchored mechanisms are written into a scratch
worktree of /repo and the property's check is run on it (RDV_REPO). A mutant that does not compile is discarded; one that makes the
check report a VIOLATION is killed; the rest are survivors to be read by hand (many are equivalent or only touch logging; the ones
that are not point at a weak or missing rule).

usage: tools/mutation_campaign.py C03 [C04 ...] [--max N] [--out selftest/mutation]
The worktree lives under /tmp/wt/mut and is removed at the end. Evidence files are rewritten by the runs: re-run tools/run_all.sh
afterwards.
"""
import json
import os
import re
import subprocess
import sys
import time

VERIF = os.path.dirname(os.path.dirname(os.path.abspath(__file__)))
WT = os.environ.get('MUT_WT', '/tmp/wt/mut')

OPS = [
    (r'(?<![<>=!-])<=(?!=)', '<'), (r'(?<![<>=!-])>=(?!=)', '>'), (r'(?<![<>=!\-&|])<(?![<=])(?=\s)', '<='), (r'(?<![<>=!\-])>(?![>=])(?=\s)', '>='),
    (r'==', '!='), (r'!=', '=='), (r'&&', '||'), (r'\|\|', '&&'),
    (r'\+ 1\b', '+ 0'), (r'- 1\b', '- 0'), (r'\+ SequenceNumber::new\(1\)', '+ SequenceNumber::new(0)'), (r'- SequenceNumber::new\(1\)', '- SequenceNumber::new(0)'),
    (r'\btrue\b', 'false'), (r'\bfalse\b', 'true'), (r'\.is_some\(\)', '.is_none()'), (r'\.is_none\(\)', '.is_some()'),
    (r'\.is_empty\(\)', '.is_empty() == false'), (r'\bSome\(([a-z_]+)\) =>', r'Some(\1) if false =>'),
    (r'\bmax\(', 'min('), (r'\bmin\(', 'max('),
]
SKIP_LINE = re.compile(r'^\s*(//|trace!|debug!|info!|warn!|error!|security_|#\[|use |\*|"|\)|\}|\{)|^\s*$')


def ranges_of(prop):
    out = []
    for l in open(os.path.join(VERIF, 'properties.jsonl')):
        d = json.loads(l)
        if d['id'] != prop:
            continue
        for m in d['anchors'].get('mechanism', []) + d['anchors'].get('state', []):
            for part in re.split(r'[;,]\s*', m.get('where', '')):
                mm = re.match(r'\s*(src/[\w/\.]+\.rs):(\d+)(?:-(\d+))?', part)
                if not mm:
                    mm2 = re.match(r'\s*(\d+)(?:-(\d+))?$', part)
                    if mm2 and out:
                        out.append((out[-1][0], int(mm2.group(1)), int(mm2.group(2) or mm2.group(1))))
                    continue
                out.append((mm.group(1), int(mm.group(2)), int(mm.group(3) or mm.group(2))))
    return out


def widen(prop, rs):
    """MUT_WIDE=1: every anchored range is extended to the whole functions it touches (function spans from the fact file of the pinned tree)."""
    sys.path.insert(0, VERIF)
    from rdv import core, extract
    fx = core.Facts(extract.load('security' if prop in ('C16', 'C17', 'C18', 'C19') else 'default'))
    out = []
    for f, lo, hi in rs:
        spans = [(b.line, b.end_line or b.line) for b in fx.bodies if b.kind in ('fn', 'assoc_fn') and b.file == f and b.line <= hi + 6 and (b.end_line or b.line) >= lo - 6 and
                 '::tests::' not in b.key and (b.end_line or b.line) - b.line < 400]
        if spans:
            out.append((f, min(a for a, _ in spans) + 6, max(z for _, z in spans) - 6))
        else:
            out.append((f, lo, hi))
    return out


def mutants(path, lo, hi):
    src = open(os.path.join(WT, path)).read().split('\n')
    in_macro = 0
    for i in range(max(0, lo - 6), min(len(src), hi + 6)):
        line = src[i]
        if SKIP_LINE.search(line):
            continue
        code = line.split('//')[0]
        for pat, rep in OPS:
            for m in re.finditer(pat, code):
                new = code[:m.start()] + re.sub(pat, rep, code[m.start():m.end()]) + code[m.end():] + line[len(code):]
                if new != line:
                    yield i, line, new, '%s -> %s' % (m.group(0), rep)
        # statement deletion: a single-line call statement
        if re.match(r'^\s*[a-z_\.]+(\.[a-z_]+)*\([^;]*\);\s*$', code) and 'let ' not in code and 'return' not in code:
            yield i, line, re.match(r'^\s*', line).group(0) + '// deleted', 'delete statement'


def run(cmd, env=None, timeout=600):
    e = dict(os.environ)
    e.update(env or {})
    try:
        p = subprocess.run(cmd, shell=True, env=e, capture_output=True, text=True, timeout=timeout)
        return p.returncode, p.stdout + p.stderr
    except subprocess.TimeoutExpired:
        return 124, 'timeout'


CLUSTERS = {
    'reliability': ['C01', 'C02', 'C03', 'C04', 'C05', 'C06', 'C20', 'C13', 'C09'],
    'discovery': ['C10', 'C11', 'C12', 'C15'],
    'wire': ['C14', 'C15', 'C06', 'C05'],
    'reading': ['C08', 'C09', 'C13', 'C01'],
    'security': ['C16', 'C17', 'C18', 'C19'],
}
CLUSTER_OF = {'C01': 'reliability', 'C02': 'reliability', 'C03': 'reliability', 'C04': 'reliability', 'C05': 'reliability', 'C06': 'reliability', 'C20': 'reliability',
              'C08': 'reading', 'C09': 'reading', 'C13': 'reading', 'C10': 'discovery', 'C11': 'discovery', 'C12': 'discovery', 'C15': 'wire', 'C14': 'wire',
              'C16': 'security', 'C17': 'security', 'C18': 'security', 'C19': 'security'}


def retest(prop, out_dir):
    """Re-apply the survivors of one property and run the other checks of its cluster: a mutant of a shared mechanism may be another property's obligation."""
    path = os.path.join(out_dir, prop + '.json')
    res = json.load(open(path))
    others = [c for c in CLUSTERS[CLUSTER_OF[prop]] if c != prop]
    still = []
    for rec in res['survived']:
        full = os.path.join(WT, rec['file'])
        src = open(full).read().split('\n')
        i = rec['line'] - 1
        old = src[i]
        # regenerate the mutant line
        new = None
        for m in mutants(rec['file'], rec['line'], rec['line']):
            if m[0] == i and m[3] == rec['mutation'] and m[2].strip()[:160] == rec['code']:
                new = m[2]
        if new is None:
            still.append(rec)
            continue
        src[i] = new
        open(full, 'w').write('\n'.join(src))
        by = []
        for c in others:
            rc, out = run('cd %s && ./check %s' % (VERIF, c), env={'RDV_REPO': WT})
            if 'VIOLATION' in out:
                by.append(c)
                break
        src[i] = old
        open(full, 'w').write('\n'.join(src))
        if by:
            rec['killed_by_other_property'] = by
            res['killed'].append(rec)
        else:
            still.append(rec)
        print('%s retest %s:%d %s -> %s' % (prop, rec['file'], rec['line'], rec['mutation'], by or 'SURVIVED'), flush=True)
    res['survived'] = still
    res['retested_against'] = others
    json.dump(res, open(path, 'w'), indent=1)
    print('%s after cluster retest: %d killed, %d survived' % (prop, len(res['killed']), len(res['survived'])), flush=True)


def main():
    if '--retest' in sys.argv:
        out_dir = os.path.join(VERIF, 'selftest', 'mutation')
        run('git -C /repo worktree remove --force %s; git -C /repo worktree add --detach %s HEAD && cp /repo/Cargo.lock %s/' % (WT, WT, WT))
        for prop in [a for a in sys.argv[1:] if not a.startswith('--')]:
            retest(prop, out_dir)
        run('git -C /repo worktree remove --force %s' % WT)
        return
    args = [a for a in sys.argv[1:] if not a.startswith('--')]
    mx = 80
    out_dir = os.path.join(VERIF, 'selftest', 'mutation')
    for i, a in enumerate(sys.argv):
        if a == '--max':
            mx = int(sys.argv[i + 1])
            args = [x for x in args if x != sys.argv[i + 1]]
        if a == '--out':
            out_dir = os.path.join(VERIF, sys.argv[i + 1])
            args = [x for x in args if x != sys.argv[i + 1]]
    os.makedirs(out_dir, exist_ok=True)
    run('git -C /repo worktree remove --force %s; git -C /repo worktree add --detach %s HEAD && cp /repo/Cargo.lock %s/' % (WT, WT, WT))
    for prop in args:
        rs = ranges_of(prop)
        if os.environ.get('MUT_WIDE'):
            rs = widen(prop, rs)
        seen = set()
        res = {'property': prop, 'ranges': rs, 'killed': [], 'survived': [], 'invalid': 0, 'repo_head': run('git -C /repo rev-parse --short HEAD')[1].strip()}
        n = 0
        t0 = time.time()
        allm = []
        for path, lo, hi in rs:
            if not os.path.exists(os.path.join(WT, path)):
                continue
            for m in mutants(path, lo, hi):
                k = (path, m[0], m[3])
                if k in seen:
                    continue
                seen.add(k)
                allm.append((path,) + m)
        # spread the budget over the ranges
        step = max(1, len(allm) // mx)
        off = int(os.environ.get('MUT_OFFSET', '0')) % step       # a later round samples the mutants between those of the earlier one
        for path, i, old, new, what in allm[off::step][:mx]:
            full = os.path.join(WT, path)
            src = open(full).read().split('\n')
            src[i] = new
            open(full, 'w').write('\n'.join(src))
            rc, out = run('cd %s && ./check %s' % (VERIF, prop), env={'RDV_REPO': WT})
            src[i] = old
            open(full, 'w').write('\n'.join(src))
            n += 1
            rec = {'file': path, 'line': i + 1, 'mutation': what, 'code': new.strip()[:160]}
            if 'fact extraction failed' in out or 'CHECK-BROKEN' in out and 'cargo check failed' in out:
                res['invalid'] += 1
            elif 'VIOLATION' in out:
                keys = re.findall(r'\[(%s/[^\]]+)\]' % prop, out)
                rec['killed_by'] = sorted(set(k.split('/')[1] for k in keys))[:4]
                res['killed'].append(rec)
            elif 'CHECK-BROKEN' in out:
                rec['broken'] = out[-300:]
                res['killed'].append(rec)
            else:
                res['survived'].append(rec)
            print('%s %d/%d %s:%d %s -> %s' % (prop, n, min(mx, len(allm)), path, i + 1, what, 'invalid' if rec not in res['killed'] and rec not in res['survived'] else ('killed' if rec in res['killed'] else 'SURVIVED')), flush=True)
        res['seconds'] = round(time.time() - t0)
        res['mutants_generated'] = len(allm)
        json.dump(res, open(os.path.join(out_dir, prop + '.json'), 'w'), indent=1)
        print('%s: %d killed, %d survived, %d invalid of %d run (%d generated) in %ds' % (prop, len(res['killed']), len(res['survived']), res['invalid'], n, len(allm), res['seconds']), flush=True)
    run('git -C /repo worktree remove --force %s' % WT)


if __name__ == '__main__':
    main()
