#!/bin/bash
# tools/import_seed.sh <worktree> <seed-id>  -- copies <worktree>/SEED/{patch.diff,demo.diff,meta.json,transcript.txt} to seeded/<seed-id>/
set -eu
wt=$1; id=$2
mkdir -p /verif/seeded/$id
for f in patch.diff demo.diff meta.json transcript.txt; do cp $wt/SEED/$f /verif/seeded/$id/; done
(cd /repo && git apply --check /verif/seeded/$id/patch.diff && echo "$id: patch applies on /repo HEAD")
