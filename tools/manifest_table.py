# claim(id, technique, level text, trusted base / assumptions, DESIGN section)
claim('C13', 'path rules on MIR CFGs (edge-cut / must-pass-through): Pending discipline, drain-before-fill, publish-then-notify',
      'Decides for every CFG path (hence every interleaving, by the register/re-check + publish/notify argument) that no hand-written future, stream or '
      'synchronous read entry point can park while a wake-up is outstanding. All instances are discovered from the type-checked program; the protocol '
      'argument itself (textbook) is assumed, not mechanised.',
      'rustc front end and MIR construction; mirfacts extractor; std Waker / mio channel semantics; one waker slot per entity.',
      'DESIGN.md section 4 C13')

_pending = 'check not built yet in this revision (static rules designed in DESIGN.md section 4; implementation in progress)'
for _p in ['C01', 'C02', 'C03', 'C04', 'C05', 'C06', 'C08', 'C09', 'C10', 'C11', 'C12', 'C14', 'C15', 'C16', 'C17', 'C18', 'C19', 'C20']:
    if _p not in CHECKS:
        na(_p, _pending)
na('C07', 'end-to-end behaviour of two participants (sockets, timers, creation orders, loss): no clause is a property of code shape that is not already decided under C04, C10, C11 or C12; no sound static argument in reach bounds the run-time quantities involved')
