# claim(id, technique, level text, trusted base / assumptions, DESIGN section)
claim('C13', 'path rules on MIR CFGs (edge-cut / must-pass-through): Pending discipline, drain-before-fill, publish-then-notify, status-channel producer; unconditional waker replacement',
      'Also decided: set_waker replaces the stored waker on every path. Decides for every CFG path (hence every interleaving, by the register/re-check + publish/notify argument) that no hand-written future, stream or '
      'synchronous read entry point can park while a wake-up is outstanding. All instances are discovered from the type-checked program; the protocol '
      'argument itself (textbook) is assumed, not mechanised.',
      'rustc front end and MIR construction; mirfacts extractor; std Waker / mio channel semantics; one waker slot per entity.',
      'DESIGN.md section 4 C13')

claim('C09', 'loop-progress rule (must-pass-through on every cycle query->query and on every non-empty exit), outer-loop and wrapper rules, content-taint hazard enumeration on the read path (all on MIR); consume-implies-deliver path rule',
      'Also decided: every change pulled from the SimpleDataReader reaches the sample cache before the next pull or a return. Decides that every loop on the read/take call graph that re-issues a receive-cache query advances both read pointers on every path back to the query, '
      'that every non-empty exit advances them too (reported exactly once), and that wrappers and outer loops only continue after a consumed change. '
      'Termination then follows for every cache content because each iteration consumes one change of a finite cache. Also decided: no index/slice/unwrap/panic site on the read path '
      '(about 300 functions) is reached by content of a cached change without a dominating length check or clamp, apart from four reviewed sites (a panic there poisons the cache locks).',
      'rustc front end + MIR; mirfacts; user-supplied Decode/DeserializerAdapter terminate; topic-cache iterators are finite.',
      'DESIGN.md section 4 C09')
claim('C10', 'abstract interpretation of MIR over a finite ordering domain (exhaustive truth table) + provenance rules; PL-CDR table extraction for the eight request/offered policies',
      'Also decided (structurally, not exhaustively): each RxO policy is announced whenever present, independent of its value, and read back with the same wire type, so both sides evaluate the same QoS. Exhaustive over a finite abstract domain: the MIR of compliance_failure_wrt_impl and of every comparator it reaches is interpreted for every combination of '
      'presence, enum variant, boolean and weak ordering of the scalar fields, and the verdict compared with the DDS 1.4 2.2.3 request/offered table '
      '(obligations = valuations, all discharged). Call-site roles (offered vs requested) and comparator hygiene are decided by provenance rules.',
      'rustc front end + MIR; mirfacts; the rdv.absint interpreter and its std comparator semantics; the RxO table as transcribed in rules/C10.py; Durations normalised.',
      'DESIGN.md section 4 C10', category='proof')

claim('C12', 'comparison-formula extraction (normalised relation + operand provenance) and must-pass-through / edge-cut path rules on MIR; who-may-mutate rule with an allow-list of keyed operations on the per-participant stores',
      'Decides the shape of the lease rule, not durations: a participant reaches the removal list exactly on elapsed > lease(+tolerance) with '
      'elapsed = now - last life sign and lease = advertised | default; every accepted announcement and every liveness notification refreshes the life sign; '
      'the edge-triggered liveness channel is drained until empty; dispose removes immediately; timeout moves endpoints to the attic and rediscovery restores them; '
      'the cleanup timer arm always re-arms; every mutable access to the per-participant stores (proxies, life signs, endpoints, attic) is a single-key operation or the '
      'prefix-range move, so handling one participant cannot lose what is remembered about another. Behaviour over real time (cleanup period granularity) is not decided.',
      'rustc front end + MIR; mirfacts; std Instant / mio timer semantics.',
      'DESIGN.md section 4 C12')
claim('C20', 'role-pair comparison consistency (normalised S?B relations over provenance terms) + must-pass-through path rules on MIR; state pairing of the async wait future; result table of the async wait future',
      'Also decided: the async wait reports Ready(Ok(true)) exactly in state Done or on the completion token, and Ok(false) when the completion stream ended unanswered. Also decided: the async wait never returns Pending with its placeholder state Done left in place. Decides the structural necessary conditions: every comparison between the inclusive last-written sequence number and an exclusive acked-before frontier in '
      'rtps::writer has the same strictness (S < B acked / S >= B pending); the pending set holds reliable proxies only and an empty one completes at once; '
      'reader loss and every ACKNACK reach the waiter; the sync wait registers before sending and reports success only on the completion token; the async '
      'future has no bare Pending. The timeout duration and promptness as durations are not decided.',
      'rustc front end + MIR; mirfacts; role table (S: last_seq, wait_until; B: all_acked_before, reader_sn_state.base(), acked_before) taken from the field comments.',
      'DESIGN.md section 4 C20')

claim('C17', 'gating analysis: dominance / edge-cut rules over the call graph and CFGs of the security-feature MIR, decision-tree reconstruction of the exemption match; the converse path rule (accepted traffic is handed on) and the destination-filter decision table',
      'Also decided: once a gate answered "not protected" / "handle confirmed", every path hands the submessage on (unprotected topics keep working), and a submessage is dropped as "not for this participant" exactly when its destination is neither this participant nor UNKNOWN. Decides for all paths (all inputs) that plaintext cannot reach a Reader/Writer delivery sink past a required protection level: the rtps-level flag is decided afresh '
      'per message and cleared only under {no plugins, successful message decode, domain not rtps-protected}; both submessage handlers test it and exempt exactly the three '
      'bootstrap entities (reconstructed byte-wise from the lowered match and compared with the EntityId constants); every hand-over is under the submessage-level gate; '
      'the payload reaches the Reader only as the Ok value of decode_serialized_payload; the not-protected sets are filled only under !is_*_protected.',
      'rustc front end + MIR (security feature set); mirfacts; std Option/Result::map semantics; governance attributes correct (C18); crypto plugin verifies (C16).',
      'DESIGN.md section 4 C17')

claim('C16', 'must-pass-through (edge-cut with infeasible-edge pruning) and result-use rules on the security-feature MIR; provenance of the key-id comparison and of the payload framing; approved-endpoint list provenance; clear-text header binding (dominating whole-value equality + derive/constructor facts); mismatch-edge reachability for kind / key-id comparisons; push-before-next-parse path rule on the decrypted content',
      'Also decided: the mismatch edge of every kind / key-id comparison of the three decode functions cannot reach a success, and every submessage parsed out of the decrypted content is part of the result. Also decided: with message-level protection every Success lies behind InfoSource::from(clear-text header) == protected InfoSource (derived equality over version, vendor and prefix). Also decided: the endpoint list of a decoded submessage derives from the key-id lookup and the receiver-specific MAC filter. Also decided: the header key id is compared on the single key material selected for the scope; the payload framing/footer-location facts (F15, known finding: protected payloads of length not divisible by 4 are dropped). Decides that the builtin crypto plugin cannot release data without a successful verification: in the three decode functions every value that can be a success '
      'in a GMAC/GCM arm is defined on the Ok continuation of validate_mac/decrypt; no verification result is discarded or defaulted; the receiver-specific MAC '
      'predicate is true only without a receiver-specific key or on a MAC verified under that key, and every caller gates success on it; header kind/key id are '
      'compared with the key material. That altered bytes fail verification is a property of AES-GCM/GMAC (ring) and is assumed.',
      'rustc front end + MIR (security feature set); mirfacts; ring AEAD; std Result::map/and_then/map_or_else semantics.',
      'DESIGN.md section 4 C16')

claim('C18', 'provenance (value-is-verified chase through Result combinators), who-may-read, first-match shape rules; exhaustive abstract interpretation of the interval and entity-kind formulas; type-driven allow-list of instant-preserving timestamp conversions; whole-name subject equality; decision tables over the atoms of the applicability functions (all assignments)',
      'Also decided: Criterion / Rule applicability, DataTag::check, check_participant_join and check_entity equal their reference boolean formulas for every assignment of their atoms (any / all / equality calls, entity kind). Also decided: subject names are compared by whole-name equality. Also decided: a zoned validity bound is converted only by instant-preserving operations. Decides: access-control XML is parsed only from the Ok value of SignedDocument::verify_signature (3 sites); the raw content is readable only by the verifier; verify_signature '
      'returns Ok only past the digest equality and the signature verification over that content; the four rule lookups take the first match of a forward iteration with the documented '
      'fallbacks (default_action, missing topic rule => protected); DomainIds::matches and the entity-kind/protection tables are compared exhaustively with their reference formulas; '
      'result = unprotected OR permitted. Glob/subject matching, XML parsing and the signature algorithm are assumed.',
      'rustc front end + MIR (security feature set); mirfacts; rdv.absint; std Iterator::find / Option / Result combinator semantics; ring signature verification.',
      'DESIGN.md section 4 C18')
claim('C19', 'pairing (swap-out / write-back on every exit a rejected message can take) and dominance (verification Ok-edges, followed into verification closures, cut every path to a trusted state) rules on the security-feature MIR; accepting-state sets of the lowered state matches; GUID binding input; mismatch-edge reachability and echo-completeness (sibling agreement of the two arms)',
      'Also decided: the GUID binding hashes the subject name of the presented certificate. Also decided: each handshake entry point can succeed only from the state(s) in which its message is expected. Decides: every transition to CompletedWithFinalMessage* and every shared-secret computation lies behind the Ok continuations of the Identity-CA certificate check, the GUID '
      'binding check, the challenge echoes and the signature verification of that step; begin_handshake_reply verifies before accepting; no verification result is discarded; and '
      'the state swapped out of the handshake machine is put back on every exit that a message not proven genuine can take, and what is put back is what was taken (F10, fixed df2800b); '
      'every comparison of a received token field with a local value rejects on mismatch, the replier carries the hash(C1) it computed itself, and every value the pending state remembers and the '
      'token echoes is compared (raised F16: dh1 echo unchecked, fixed ca6bdd5). X.509, ECDH and signature algorithms are assumed.',
      'rustc front end + MIR (security feature set); mirfacts; ring / x509 verification.',
      'DESIGN.md section 4 C19')

claim('C11', 'who-may-write (field / map mutation sites), pairing and guard (edge-cut) rules on MIR; store-aware must-call rule from discovery to the local endpoints (both feature configurations)',
      'Also decided: a discovered remote endpoint reaches update_reader_proxy / update_writer_proxy of every local endpoint on the same topic on every feasible path (security: except on an incompatible-security verdict with plugins present). Decides the structural necessary conditions: total counters only grow (total += c under c > 0); every matched status takes current from len() of the match map after the '
      'mutation and total from the monotone counter, with agreeing changes; an unmatch status is sent exactly when the removed key was in the map; the maps are mutated only by the '
      'paired add/remove/detach-reattach functions (net-zero checked); incompatible QoS yields the incompatible-QoS status and no match; participant loss removes every endpoint of '
      'that participant and the event loop forwards losses to every local endpoint. Set equality with "currently announced" over discovery histories is not decided.',
      'rustc front end + MIR; mirfacts; BTreeMap semantics.',
      'DESIGN.md section 4 C11')

claim('C01', 'provenance (origin terms with capture / getter resolution) and guard (edge-cut) rules on MIR; store-aware path evaluation with guard entailment for the NumberSet iterator; limit-after-order rule; bit-membership rule of the NumberSet iterator (tested word / mask = yielded index, one mask formula at all sites)',
      'Also decided: the NumberSet iterator yields an index only after testing the bit of that very index, with the one mask formula insert and both iterator directions share. Also decided: a bounded read cuts the selection after it was sorted by sequence number. Decides named necessary conditions of in-order, exactly-once, hole-free hand-over: the reliable window is exclusive on both ends with lower = read pointer and '
      'upper = max(reliable marker, lower+1); the read pointer is advanced to exactly the change returned; the reliable marker is always the ack_base of the same writer\'s proxy; '
      'duplicates are dropped before the cache; CacheChange fields come from the delivering submessage; exclusive "..._before" bounds are decremented when used as inclusive range ends; the NumberSet iterator feeding GAP handling never yields a bit index >= num_bits '
      '(store-aware evaluation of every path of next/next_back). '
      'Ordering over arbitrary DATA/GAP/HEARTBEAT histories is NOT decided.',
      'rustc front end + MIR; mirfacts; BTreeMap::range semantics; naming convention *_before = exclusive bound (R01.6).',
      'DESIGN.md section 4 C01')
claim('C03', 'who-may-write + guard rules on the acknowledgment frontier, provenance rules on ACKNACK / NACKFRAG construction; exclusive-bound discipline of irrelevant ranges (shared with C01/C02); ACKNACK base provenance incl. constants under a predicate',
      'Also decided: every ACKNACK base is derived from ack_base or is a constant sent only under a predicate implying ack_base is not above it. Also decided: irrelevant ranges never cover their exclusive end. Decides: ack_base is written only monotonically (constructors, + k in advance_ack_base, guarded jump in irrelevant_changes_range) and advanced exactly when a number equals it; '
      'counts come from a post-incremented counter; the ACKNACK base is first() of the unfiltered missing list (ack_base when nothing is missing) and the list scans '
      '[max(hb.first, ack_base), hb.last] reporting only numbers absent from `changes`; the set is limited to the 256 window; NACKFRAGs name the missing fragments of their sample. '
      'That every listed number is really missing over arbitrary histories is NOT decided.',
      'rustc front end + MIR; mirfacts.',
      'DESIGN.md section 4 C03')

claim('C02', 'handler-completeness, drain-until-empty and timer re-arm pairing rules (edge cuts on MIR); role-pair comparison normalisation shared with C20; exclusive-bound discipline of GAP ranges (shared with C01/C03); who-may-call for the unsent bookkeeping; decision table of the destination filter; request / repair rules shared with C03 and C04',
      'Also decided: the MessageReceiver drops a submessage as "not for this participant" exactly when its destination prefix is neither that of this participant nor UNKNOWN (all four assignments of the two comparisons), so ACKNACKs and HEARTBEATs addressed to this participant reach the handlers; the ACKNACK base / request-goes-out / repair-worker rules of C03 and C04 are evaluated here too. Also decided: a pushed sample stays in the unsent set until acknowledged (mark_change_sent only from the repair worker). Also decided: an exclusive gapList.base / HEARTBEAT.first used as the end of an inclusive range is decremented. Convergence over fault schedules is NOT decided. Decided structural necessary conditions: a received ACKNACK always reaches Writer::handle_ack_nack of the writer it names '
      '(channel drained until empty); the Heartbeat and CacheCleaning arms always re-arm, the repair arms re-arm exactly while repair is pending; heartbeats are suppressed and repair '
      'switched off only under last-written < acked-before (for all readers); repair switches on with its timer armed; the reader answers every informative or non-final HEARTBEAT.',
      'rustc front end + MIR; mirfacts; mio timer semantics.',
      'DESIGN.md section 4 C02')
claim('C04', 'guard dominance (edge cuts), provenance and who-may-prune rules on MIR; sibling consistency of the retention fold; store-aware feasibility for the recorded-GAP rule',
      'Also decided (independent of how the guard is written): a recorded GAP goes out on every feasible path. Decides: a single-reader sample is emitted only under g == target and all other readers get a pending GAP; every HEARTBEAT advertises (history first_seq, last_seq); '
      'every requested sequence number is answered by the requested DATA or a GAP that is then sent, and marked sent only after its emission; the requested set is pruned only below '
      'the ACKNACK base or the history floor; the retention fold ranges over reliable proxies only and treats "no reliable reader" as everything acknowledged. '
      'Retention counts over arbitrary interleavings are NOT decided.',
      'rustc front end + MIR; mirfacts; BTreeSet semantics (insert => non-empty).',
      'DESIGN.md section 4 C04')

claim('C05', 'guard (edge-cut) and provenance rules on the fragment assembler MIR; polynomial normal forms of sibling formulas (writer split vs reader placement, fragment counts, announced size vs sliceable bytes); every-fragment-recorded path rule; copy window of the reassembly as a min-set of polynomials',
      'Also decided: insert_frags copies exactly [start, min(start + payload length, buffer length)) with start = (starting_num-1)*fragment size, in any algebraic form. Also decided: every DATAFRAG handed to the assembler is recorded. Also decided (as agreement of sibling formulas on polynomial normal forms, not by computing bytes): the writer cuts fragment n as bytes (n-1)*fs .. min(n*fs, size) with the header fields it announces, the reader places it at the same offset, both sides count ceil(size/fs) fragments, and the announced size is the length of the object the slices are cut from. Byte-exact reassembly for every size / fragment size / order is a value property and is NOT decided. Decided: a sample is released only on is_complete() of the buffer '
      'selected by the DATAFRAG\'s own sequence number, is_complete() is the all() of the per-fragment bitmap (not an arrival count), the buffer is removed on release and its bytes '
      'are what is released; every carried fragment sets its own bit; assemblers are keyed by the sending writer\'s guid.',
      'rustc front end + MIR; mirfacts; BitVec / BTreeMap semantics.',
      'DESIGN.md section 4 C05')
claim('C08', 'effect (who-may-remove), must-call and monotone-write rules on the generic MIR of DataSampleCache<D>; store-aware path evaluation of the instance state machine, eviction and read-condition formula',
      'Also decided: the instance state machine of add_sample exhaustively over (old, new) state, the KeepLast eviction count / victims / stores, the read-condition formula on every path of sample_selector, and that nothing limits a selection before it is sorted. Sample / view / instance semantics over whole access histories are NOT decided as a behaviour; the per-step mechanisms are. Decided: read/select never remove, take returns exactly what it '
      'removes and removes every selected key, read marks every reported sample, both select functions sort by the stored sequence number, the per-access generation record only '
      'moves forward and is what is written to the instance marker.',
      'rustc front end + MIR (polymorphic bodies); mirfacts.',
      'DESIGN.md section 4 C08')

claim('C14', 'byte-order provenance (E flag to serialisation context on both sides, flag-bit table), provenance of header lengths, path-enumerated codec sequence agreement, controlling-condition comparison, interval reasoning over window constants, store-aware path evaluation with guard entailment, size polynomials of write_to paths vs len_serialized expressions with modulo-4 reasoning (all on MIR); parser-mirrors-writer and zero-length rule',
      'Also decided: every submessage body and separately serialised element is written and parsed under the byte order its own header flag announces (never the ambient context), and the flag helpers agree on bit 0x01. Also decided: the DATA/DATAFRAG cursor parsers mirror the writers, the octetsToInlineQos literal matches the fields, and the zero-length rule covers exactly PAD and INFO_TS. Round-trip equality for all values is NOT decided. Decided: for every type with both, len_serialized() equals the bytes write_to emits for all presence combinations and element counts (raised F14, fixed); every SubmessageHeader.content_length is the length of the very body in the same Submessage or a literal equal to '
      'the fixed size computed from the ADT table; the hand-written SequenceNumber / NumberSet / SubmessageHeader codecs write and read the same primitive sequence on every path; the '
      'InlineQos flag and inline_qos presence share one controlling condition and the DDSData variant table matches the reader\'s; from_base_and_set can never produce more bits than '
      'read_from accepts (256), and on every path of NumberSetIter::next/next_back to a result the comparisons passed entail index < rev_at_bit <= num_bits (no member outside the window).',
      'rustc front end + MIR; mirfacts; derived speedy codecs agree by construction; Data/DataFrag cursor parsers not covered by the sequence rule.',
      'DESIGN.md section 4 C14')
claim('C15', 'parameter-identity provenance (wire id to lookup key untransformed); table extraction from MIR (ParameterId constant, wire type argument, multiplicity from control shape) and table agreement; emission-condition classification; store-aware path evaluation of the pad arguments of hand-aligned value codecs; PID-to-field agreement, crossed-roles lint',
      'Also decided: a parameter is filed and looked up under its full 16-bit id, untransformed from the wire to the map (a vendor-specific id can never alias a standard one). Also decided: each parameter value lands in the field it was written from. Also decided: in the hand-aligned value codecs every pad length is the length of the value just read/written on every path (loops crossed), and no variable-length value lacks a following pad. Byte-level CDR of parameter values is NOT decided. Decided for SPDP participant data, SEDP reader/writer/topic data and QosPolicies in both feature configurations (about 140 '
      'parameters each): every parameter written is read with the same wire type and compatible multiplicity and vice versa; whether a parameter is written depends only on presence / '
      'variant of its field, never on its value; absent optionals decode to the RTPS defaults; the parameter-list reader is id-agnostic up to the sentinel. Six write-only parameters '
      'of fields documented as not implemented are listed as known findings (F13, demonstrated).',
      'rustc front end + MIR (both feature sets); mirfacts; wrapper pairs Locator/repr::Locator, String/StringWithNul.',
      'DESIGN.md section 4 C15')

claim('C06', 'interprocedural wire-taint over the receive call graph; hazard-site enumeration (range loops, allocation sizes, index/slice/cursor ops, unwrap/assert/panic, BTreeMap::range) with discharge by type rules, dominating guards and re-checked named guards; who-may-call rule for blocking primitives and provenance of the notification socket mode; division by wire value as blocking hazard; raw byte buffers handed to receive roots are taint sources',
      'Also decided: Bytes / BytesMut / [u8] parameters of the receive roots are wire data in their own right (constant indices into them need a dominating length test or a fixed-size typed read covering them); both feature configurations in the quick tier. Also decided: no division or remainder by a sender-controlled value without a dominating non-zero check. Decides that every site where a wire-controlled value can reach a loop bound over a sequence-number range, an allocation size, an indexing / slicing / cursor operation, an explicit '
      'panic or a BTreeMap::range on the code reachable from the receive entry points (about 580 functions) is discharged by a recognised bound or by a named guard that is re-checked on every '
      'run (parser validity checks, cursor discipline, window limits, fit-to-buffer check); unknown sites and vanished guards are reported. Two open hazards are known findings (F2 GAP range '
      'materialisation, F3 allocation sized by data_size), two were repaired (F1, F4); all four were demonstrated. Also decided: no blocking channel/thread primitive is reachable from the receive entry points and the one socket the receive thread writes to whose peer the application drains is set non-blocking '
      'before use. Proportionality as a quantity and reviewed relational invariants are counted separately.',
      'rustc front end + MIR; mirfacts; taint sources = wire submessage types, speedy reads, cursor positions; dyn calls over-approximated; panics inside dependencies only via the listed call sites; release (wrapping) arithmetic.',
      'DESIGN.md section 4 C06')

_pending = 'check not built yet in this revision (static rules designed in DESIGN.md section 4; implementation in progress)'
for _p in ['C01', 'C02', 'C03', 'C04', 'C05', 'C06', 'C08', 'C09', 'C10', 'C11', 'C12', 'C14', 'C15', 'C16', 'C17', 'C18', 'C19', 'C20']:
    if _p not in CHECKS:
        na(_p, _pending)
na('C07', 'end-to-end behaviour of two participants (sockets, timers, creation orders, loss): no clause is a property of code shape that is not already decided under C04, C10, C11 or C12; no sound static argument in reach bounds the run-time quantities involved')
