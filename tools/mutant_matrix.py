#!/usr/bin/env python3
"""tools/mutant_matrix.py <Cxx...> [--out file]  -- re-applies every surviving mutant recorded in selftest/mutation/<Cxx>.json and runs ALL checks of its cluster
(the property's own check included: rules change), recording which rules kill it now. Output: selftest/mutation_matrix/<Cxx>.json with, per mutant,
{"file","line","mutation","code","killed_by": {"C03": ["R03.9"], ...}}.  Scratch worktree under $MUT_WT (default /tmp/wt/mm), removed at the end."""
import json
import os
import re
import sys

VERIF = os.path.dirname(os.path.dirname(os.path.abspath(__file__)))
sys.path.insert(0, os.path.join(VERIF, 'tools'))
import mutation_campaign as mc  # noqa: E402

WT = os.environ.get('MUT_WT', '/tmp/wt/mm')
mc.WT = WT


def main():
    props = [a for a in sys.argv[1:] if not a.startswith('--')]
    in_dir = os.path.join(VERIF, 'selftest', 'mutation')
    out_dir = os.path.join(VERIF, 'selftest', 'mutation_matrix')
    for i, a in enumerate(sys.argv):
        if a == '--in':           # e.g. --in selftest/mutation_r2  (output goes to <in>_matrix)
            in_dir = os.path.join(VERIF, sys.argv[i + 1])
            out_dir = in_dir.rstrip('/') + '_matrix'
            props = [x for x in props if x != sys.argv[i + 1]]
    os.makedirs(out_dir, exist_ok=True)
    mc.run('git -C /repo worktree remove --force %s; git -C /repo worktree add --detach %s HEAD && cp /repo/Cargo.lock %s/' % (WT, WT, WT))
    for prop in props:
        res = json.load(open(os.path.join(in_dir, prop + '.json')))
        cluster = [prop] + [c for c in mc.CLUSTERS[mc.CLUSTER_OF[prop]] if c != prop]
        out = []
        for rec in res['survived']:
            full = os.path.join(WT, rec['file'])
            src = open(full).read().split('\n')
            i = rec['line'] - 1
            new = None
            for m in mc.mutants(rec['file'], rec['line'], rec['line']):
                if m[0] == i and m[3] == rec['mutation'] and m[2].strip()[:160] == rec['code']:
                    new = m[2]
            r = {k: rec[k] for k in ('file', 'line', 'mutation', 'code')}
            if new is None:
                r['stale'] = True
                out.append(r)
                continue
            old = src[i]
            src[i] = new
            open(full, 'w').write('\n'.join(src))
            by = {}
            for c in cluster:
                rc, o = mc.run('cd %s && ./check %s' % (VERIF, c), env={'RDV_REPO': WT})
                if 'fact extraction failed' in o or ('CHECK-BROKEN' in o and 'cargo check failed' in o):
                    by = {'invalid': True}
                    break
                if 'VIOLATION' in o:
                    keys = re.findall(r'\[(%s/[^\]]+)\]' % c, o)
                    by[c] = sorted(set(k.split('/')[1] for k in keys))[:4]
                elif 'CHECK-BROKEN' in o:
                    by[c] = ['CHECK-BROKEN']
            src[i] = old
            open(full, 'w').write('\n'.join(src))
            r['killed_by'] = by
            out.append(r)
            print('%s %s:%d [%s] -> %s' % (prop, rec['file'], rec['line'], rec['mutation'], by or 'SURVIVED'), flush=True)
        json.dump({'property': prop, 'cluster': cluster, 'mutants': out}, open(os.path.join(out_dir, prop + '.json'), 'w'), indent=1)
        print('%s: %d of %d still survive every check of its cluster' % (prop, sum(1 for r in out if not r.get('killed_by') and not r.get('stale')), len(out)), flush=True)
    mc.run('git -C /repo worktree remove --force %s' % WT)


if __name__ == '__main__':
    main()
