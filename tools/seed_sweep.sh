#!/bin/bash
# tools/seed_sweep.sh [seed dirs...]  -- every seeded change is applied to a scratch worktree (never to /repo) and the check of its property is run on it (RDV_REPO).
# Output: selftest/seed_sweep.tsv  (seed, property, verdict: VIOLATION | CHECK-BROKEN | missed | does-not-apply, first violated rule keys).  Worktree under $SWEEP_WT.
set -u
V=$(cd $(dirname $0)/.. && pwd)
WT=${SWEEP_WT:-/tmp/wt/sweep}
git -C /repo worktree remove --force $WT 2>/dev/null
git -C /repo worktree add -q --detach $WT HEAD || exit 9
cp /repo/Cargo.lock $WT/
out=$V/selftest/seed_sweep.tsv
: > $out
for d in ${@:-$(ls -d $V/seeded/C*/)}; do
  d=$(realpath $d); id=$(basename $d)
  prop=$(python3 -c "import json;print(json.load(open('$d/meta.json'))['property'])")
  (cd $WT && git checkout -q -- . && git clean -fdq -e Cargo.lock)
  if ! (cd $WT && git apply $d/patch.diff 2>/dev/null); then printf "%s\t%s\tdoes-not-apply\t\n" $id $prop >> $out; echo "$id does-not-apply"; continue; fi
  o=$(cd $V && RDV_REPO=$WT ./check $prop 2>&1)
  keys=$(echo "$o" | grep -o "\[$prop/[^]]*\]" | cut -d/ -f2 | sort -u | tr '\n' ' ')
  if echo "$o" | grep -q "^VIOLATION"; then v=VIOLATION; elif echo "$o" | grep -q "CHECK-BROKEN"; then v=CHECK-BROKEN; else v=missed; fi
  printf "%s\t%s\t%s\t%s\n" $id $prop $v "$keys" >> $out
  echo "$id $v $keys"
done
git -C /repo worktree remove --force $WT
echo "summary: $(cut -f3 $out | sort | uniq -c | tr '\n' ' ')"
