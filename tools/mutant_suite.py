#!/usr/bin/env python3
"""tools/mutant_suite.py <Cxx...> [--jobs N]  -- for every surviving mutant recorded in selftest/mutation/<Cxx>.json: apply it in a scratch worktree, run the
repository's test suite (default features; security-only files with --features security as well) and record whether the suite passes. A survivor that fails the
suite is not a 'realistic change that passes the existing tests' and needs no rule; the others are read by hand (equivalent / breaks the property).
Adds  "suite": "pass" | "fail" | "nocompile"  to each survivor record. Worktrees under /tmp/wt/ms<k>, removed at the end."""
import json
import os
import re
import subprocess
import sys
from concurrent.futures import ThreadPoolExecutor

VERIF = os.path.dirname(os.path.dirname(os.path.abspath(__file__)))
sys.path.insert(0, os.path.join(VERIF, 'tools'))
import mutation_campaign as mc  # noqa: E402

NS = ('ip link set lo up; ip link add veth0 type veth peer name veth1; ip addr add 10.77.0.1/24 dev veth0; ip link set veth0 up; ip link set veth1 up; '
      'ip route add 224.0.0.0/4 dev veth0')


def sh(cmd, timeout=1500):
    import signal
    p = subprocess.Popen(cmd, shell=True, stdout=subprocess.PIPE, stderr=subprocess.STDOUT, text=True, start_new_session=True)
    try:
        o, _ = p.communicate(timeout=timeout)
        return p.returncode, o
    except subprocess.TimeoutExpired:
        try:
            os.killpg(p.pid, signal.SIGKILL)
        except OSError:
            pass
        return 124, 'timeout'


RESULTS = os.path.join(VERIF, 'selftest', 'mutation', 'suite_results.jsonl')
NEXTEST_CFG = '[profile.default]\nslow-timeout = { period = "20s", terminate-after = 2 }\n'
BASE = os.environ.get('MUT_BASE', 'HEAD')     # the commit the mutation reports were made at


def work(k, items):
    wt = '/tmp/wt/ms%d' % k
    sh('git -C /repo worktree remove --force %s; git -C /repo worktree add --detach %s %s && cp /repo/Cargo.lock %s/' % (wt, wt, BASE, wt))
    os.makedirs(os.path.join(wt, '.config'), exist_ok=True)
    open(os.path.join(wt, '.config', 'nextest.toml'), 'w').write(NEXTEST_CFG)
    out = []
    for prop, rec in items:
        full = os.path.join(wt, rec['file'])
        src = open(full).read().split('\n')
        i = rec['line'] - 1
        mc.WT = wt
        new = None
        for m in mc.mutants(rec['file'], rec['line'], rec['line']):
            if m[0] == i and m[3] == rec['mutation'] and m[2].strip()[:160] == rec['code']:
                new = m[2]
        if new is None:
            rec['suite'] = 'stale'
            out.append((prop, rec))
            continue
        old = src[i]
        src[i] = new
        open(full, 'w').write('\n'.join(src))
        sec = rec['file'].startswith('src/security') or prop in ('C16', 'C17', 'C18', 'C19')
        rc, o = sh('cd %s && unshare -rn sh -c "%s; cargo nextest run --workspace --no-fail-fast --offline --test-threads 6 2>&1 | tail -40"' % (wt, NS))
        if 'could not compile' in o:
            rec['suite'] = 'nocompile'
        elif re.search(r'624 passed', o):
            rec['suite'] = 'pass'
            if sec:
                rc2, o2 = sh('cd %s && cargo test --offline --features security --lib 2>&1 | grep -E "^test result|could not compile" | tail -1' % wt)
                if 'could not compile' in o2:
                    rec['suite'] = 'nocompile'
                elif ' 0 failed' not in o2:
                    rec['suite'] = 'fail'
                    rec['suite_detail'] = 'security: ' + o2.strip()[-120:]
        else:
            rec['suite'] = 'fail'
            m = re.findall(r'(?:FAIL|SIGABRT|TIMEOUT)[^\n]*rustdds ([\w:]+)', o)
            rec['suite_detail'] = ', '.join(sorted(set(m))[:4]) or o.strip()[-160:]
        src[i] = old
        open(full, 'w').write('\n'.join(src))
        print('%s %s:%d [%s] -> %s %s' % (prop, rec['file'], rec['line'], rec['mutation'], rec['suite'], rec.get('suite_detail', '')[:100]), flush=True)
        with open(RESULTS, 'a') as f:
            f.write(json.dumps({'prop': prop, 'file': rec['file'], 'line': rec['line'], 'mutation': rec['mutation'], 'suite': rec['suite'], 'detail': rec.get('suite_detail', '')}) + '\n')
        out.append((prop, rec))
    sh('git -C /repo worktree remove --force %s' % wt)
    return out


def main():
    props = [a for a in sys.argv[1:] if not a.startswith('--') and not a.isdigit()]
    jobs = 4
    if '--jobs' in sys.argv:
        jobs = int(sys.argv[sys.argv.index('--jobs') + 1])
    docs = {}
    items = []
    done = set()
    if os.path.exists(RESULTS):
        for l in open(RESULTS):
            r = json.loads(l)
            done.add((r['prop'], r['file'], r['line'], r['mutation']))
    for p in props:
        path = os.path.join(VERIF, 'selftest', 'mutation', p + '.json')
        docs[p] = json.load(open(path))
        for rec in docs[p]['survived']:
            if 'suite' not in rec and (p, rec['file'], rec['line'], rec['mutation']) not in done:
                items.append((p, rec))
    chunks = [items[k::jobs] for k in range(jobs)]
    with ThreadPoolExecutor(jobs) as ex:
        list(ex.map(lambda kc: work(*kc), enumerate(chunks)))
    print('done; results in', RESULTS)


if __name__ == '__main__':
    main()
