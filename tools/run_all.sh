#!/bin/bash
# Runs every claimed check (quick tier by default) on /repo's current tree and validates evidence + manifest.
cd /verif
tier=${1:-quick}
rc=0
for p in $(python3 -c "import json;print(' '.join(c['property_id'] for c in json.load(open('MANIFEST.json'))['checks']))"); do
  out=$(./check $p --tier $tier 2>&1); r=$?
  echo "$out" | grep -E "VIOLATION|CHECK-BROKEN|KNOWN-FINDING|OK:" | head -5
  if [ $r -ne 0 ]; then echo "!! $p exit $r"; rc=1; fi
done
python3-vt - <<'PY'
import json, jsonschema, glob
m=json.load(open('/verif/MANIFEST.json'))
jsonschema.validate(m, json.load(open('/root/.vp/MANIFEST.schema.json')))
sch=json.load(open('/root/.vp/EVIDENCE.schema.json'))
for c in m['checks']:
    e=json.load(open('/verif/'+c['evidence_file']))
    jsonschema.validate(e, sch)
    cov=e['coverage']
    assert e['level']==c['level_claimed']['category'], (c['property_id'], e['level'])
    if e['level']=='proof': assert cov['obligations']==cov['discharged'], c['property_id']
    assert e['violations']==0, c['property_id']
print('manifest+evidence valid for', len(m['checks']), 'checks')
PY
exit $rc
