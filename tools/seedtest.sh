#!/bin/bash
# tools/seedtest.sh <seed dir> [props...]  -- apply a seeded change to /repo, run the checks, undo it.
set -u
d=$(realpath $1); shift
props=${@:-$(python3 -c "import json;print(json.load(open('$d/meta.json'))['property'])")}
cd /repo || exit 9
if ! git diff --quiet; then echo "repo dirty"; exit 9; fi
git apply "$d/patch.diff" || { echo "patch does not apply"; exit 9; }
rc=0
for p in $props; do
  (cd /verif && ./check $p 2>&1 | grep -E "VIOLATION|KNOWN|CHECK-BROKEN|OK:|^  src" | head -20)
done
git -C /repo checkout -- .
git -C /repo status --short | grep -v '^??' | head
