#!/bin/bash
# Confirms every seeded change in a scratch worktree of /repo (outside /repo and /verif):
#   1. patch applies on the current /repo HEAD and the crate builds
#   2. the unedited suite passes with the patch
#   3. the demonstration fails with the patch and passes without it
# Writes seeded/<id>/confirm.json. Usage: tools/confirm_seeds.sh [seed dirs...]
set -u
WT=/tmp/wt/confirm
cd /repo
git worktree remove --force $WT 2>/dev/null
git worktree add --detach $WT HEAD >/dev/null 2>&1 || exit 9
cp /repo/Cargo.lock $WT/
cd /verif
seeds=$(for s in ${@:-$(ls -d /verif/seeded/C*/)}; do realpath $s; done)
cd /repo
for d in $seeds; do
  d=${d%/}
  id=$(basename $d)
  cd $WT && git checkout -q -- . && git clean -fdq -e target -e Cargo.lock
  prop=$(python3 -c "import json;print(json.load(open('$d/meta.json'))['property'])")
  demo_cmd=$(python3 -c "import json;print(json.load(open('$d/meta.json'))['demo_cmd'])")
  sec=""; case $prop in C16|C17|C18|C19) sec="--features security";; esac
  res="{\"seed\":\"$id\",\"property\":\"$prop\",\"repo_head\":\"$(git -C /repo rev-parse --short HEAD)\""
  if ! git apply --3way $d/patch.diff 2>/dev/null && ! git apply $d/patch.diff; then
    echo "$res,\"applies\":false}" > $d/confirm.json; echo "$id: patch does not apply"; continue
  fi
  git reset -q 2>/dev/null
  # the suite runs in a private network namespace: test::timestamp talks to whatever other RustDDS participant is on the host and can hang when other jobs run tests
  NS='ip link set lo up; ip link add veth0 type veth peer name veth1; ip addr add 10.77.0.1/24 dev veth0; ip link set veth0 up; ip link set veth1 up; ip route add 224.0.0.0/4 dev veth0'
  suite=$(timeout 1200 unshare -rn sh -c "$NS; cargo nextest run --workspace --no-fail-fast --offline --test-threads 8" 2>&1 | grep -E "Summary|error: could not compile" | tail -1)
  suite_ok=false; echo "$suite" | grep -q "624 passed" && suite_ok=true
  sec_build=skipped
  if [ -n "$sec" ]; then cargo build --offline --features security >/dev/null 2>&1 && sec_build=ok || sec_build=FAILED; fi
  git apply $d/demo.diff || { echo "$res,\"applies\":true,\"suite_with_patch\":\"$suite\",\"demo_applies\":false}" > $d/confirm.json; echo "$id: demo does not apply"; continue; }
  with=$(timeout 900 bash -c "$demo_cmd" 2>&1 | grep -E "Summary|test result|error: could not compile|FAIL|SIGABRT" | tail -2 | tr '\n' ' ' | tr '"' "'")
  # without the patch: revert the library change, keep the demo
  git apply -R $d/patch.diff 2>/dev/null || { git checkout -q -- . ; git apply $d/demo.diff; }
  without=$(timeout 900 bash -c "$demo_cmd" 2>&1 | grep -E "Summary|test result|error: could not compile|FAIL" | tail -2 | tr '\n' ' ' | tr '"' "'")
  echo "$res,\"applies\":true,\"suite_with_patch_all_pass\":$suite_ok,\"suite_with_patch\":\"$(echo $suite | tr '"' "'")\",\"security_build_with_patch\":\"$sec_build\",\"demo_with_patch\":\"$with\",\"demo_without_patch\":\"$without\"}" > $d/confirm.json
  echo "$id: suite_ok=$suite_ok | with: $with | without: $without"
done
cd /repo && git worktree remove --force $WT
