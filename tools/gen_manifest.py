#!/usr/bin/env python3
"""Regenerates MANIFEST.json from the table below (kept next to the rules so they stay in step)."""
import json, os, subprocess
V = os.path.dirname(os.path.dirname(os.path.abspath(__file__)))

def repo_fix_commits():
    out = subprocess.run(['git', '-C', '/repo', 'log', '--format=%h %s'], capture_output=True, text=True).stdout
    return [l.split()[0] for l in out.splitlines() if ' fix:' in ' ' + l or l.split(' ', 1)[1].startswith('fix:')]

CHECKS = {}
NA = {}

import re

def tidy(text):
    """The level texts grew by prepending 'Also decided: ...' sentences. For the reader: the original statement of what is decided first, then the additions in the
    order they were made, the ones that are violated on the pinned tree (known findings) last."""
    m = re.search(r'(?<!Also )(?<!also )\b(Decides|Decided structural|Exhaustive over|Convergence over|Decided are|Static necessary|Decides the|Decides for|'
                  r'Sample / view / instance semantics|Round-trip equality for all values|Byte-exact reassembly|Decided for SPDP)', text)
    if not m or m.start() == 0:
        return text
    head, base = text[:m.start()], text[m.start():]
    parts = [x.strip() for x in re.split(r'(?=Also decided)', head) if x.strip()]
    parts.reverse()
    viol = [x for x in parts if 'known finding' in x]
    rest = [x for x in parts if 'known finding' not in x]
    return ' '.join([base.strip()] + rest + viol)

def claim(pid, technique, text, note, design_ref, category='other'):
    CHECKS[pid] = dict(technique=technique, text=tidy(text), note=note, design_ref=design_ref, category=category)

def na(pid, reason):
    NA[pid] = reason

exec(open(os.path.join(V, 'tools', 'manifest_table.py')).read())

checks = []
for pid in sorted(CHECKS):
    c = CHECKS[pid]
    checks.append({
        'property_id': pid,
        'quick_cmd': './check %s --tier quick' % pid,
        'thorough_cmd': './check %s --tier thorough' % pid,
        'evidence_file': 'evidence/%s.json' % pid,
        'replay_cmd_template': './check %s --replay {path}' % pid,
        'engine': 'mirfacts+rdv',
        'level_claimed': {'category': c['category'], 'text': c['text'], 'design_ref': c['design_ref']},
        'level_note': c['note'],
        'technique': c['technique'],
    })
doc = {
    'version': 1,
    'setup_cmd': 'cd engine/mirfacts && cargo build --release --offline',
    'hooks': {
        'guard': 'rustdds_verif',
        'enable': 'none needed: the checks read MIR facts of the unmodified library (cargo +nightly check with the mirfacts wrapper); no hook commits exist',
        'baseline_off_cmd': 'cd /repo && cargo nextest run --workspace --no-fail-fast --offline --test-threads 8',
        'source_commits': [],
        'add_only': True,
    },
    'engines': [
        {'name': 'mirfacts', 'path': 'engine/mirfacts', 'serves_properties': sorted(CHECKS),
         'kind_free_text': 'rustc_private driver (nightly) dumping type-checked MIR facts (CFG, resolved callees, places with field names, constants, ADT/impl tables) of /repo as JSON, two feature configurations'},
        {'name': 'rdv', 'path': 'rdv', 'serves_properties': sorted(CHECKS),
         'kind_free_text': 'python3 stdlib static analyses over the facts: call graph, dominators, edge-cut path rules, origin (provenance) terms, comparison-formula extraction with exhaustive truth tables, wire taint, codec table extraction, who-may-write'},
    ],
    'checks': checks,
    'not_applicable': [{'property_id': p, 'reason': NA[p]} for p in sorted(NA)],
    'notes': 'Static analysis only: every deciding step inspects the MIR of /repo\'s current working tree (content-hashed, re-extracted when stale). '
             'Genuine defects repaired in /repo by fix: commits are listed in known_findings.json as fixed entries; known (unrepaired) findings print KNOWN-FINDING lines. '
             'Seeded changes used to test the checks are under seeded/.',
}
json.dump(doc, open(os.path.join(V, 'MANIFEST.json'), 'w'), indent=1)
print('claimed', sorted(CHECKS), 'n/a', sorted(NA))
