#!/bin/bash
# tools/try_mut.sh <file> <line> <sed-expression> <Cxx...>   -- one hand-made mutant in a scratch worktree, the named checks run on it (RDV_REPO), worktree kept clean.
# tools/try_mut.sh --done removes the worktree.
WT=${TRY_WT:-/tmp/wt/try}
if [ "$1" = "--done" ]; then git -C /repo worktree remove --force $WT; exit 0; fi
f=$1; l=$2; e=$3; shift 3
if [ ! -d $WT ]; then git -C /repo worktree add -q --detach $WT HEAD && cp /repo/Cargo.lock $WT/; fi
cd $WT && git checkout -q -- . && sed -i "${l}${e}" $f
if git diff --quiet; then echo "no change made"; exit 3; fi
git diff | grep '^[-+]' | grep -v '^+++\|^---'
cd /verif
for c in "$@"; do
  RDV_REPO=$WT RDV_EVIDENCE_DIR=/verif/.cache/variant-evidence ./check $c 2>&1 | grep -E "^VIOLATION|CHECK-BROKEN|\] OK:|^  src/" | cut -c1-260
done
cd $WT && git checkout -q -- .
