#!/usr/bin/env python3
"""tools/pp.py <config> <fn-suffix> [grep]  -- pretty-print the MIR facts of matching bodies (debugging aid)."""
import os, sys
sys.path.insert(0, os.path.dirname(os.path.dirname(os.path.abspath(__file__))))
from rdv import core, extract
fx = core.Facts(extract.load(sys.argv[1]))
for b in fx.bodies:
    if b.key.endswith(sys.argv[2]) or sys.argv[2] in b.key and len(sys.argv) > 3 and sys.argv[3] == '--contains':
        print('=====', b.key, b.kind)
        core.pp_body(b)
