#!/bin/bash
# Applies selftest/benign.diff (behaviour-preserving rewrites: flipped operands, renamed locals, added logging,
# reordered independent statements, combinator <-> loop/match forms) to a scratch worktree of /repo and runs every
# claimed check against it (RDV_REPO). Every check must stay silent. The worktree is removed afterwards.
WT=/tmp/wt/benign_run
cd /repo && git worktree remove --force $WT 2>/dev/null; git worktree add --detach $WT HEAD >/dev/null 2>&1 || exit 9
cp /repo/Cargo.lock $WT/
cd $WT && git apply /verif/selftest/benign.diff || { echo "benign.diff does not apply"; exit 9; }
rc=0
cd /verif
for p in $(python3 -c "import json;print(' '.join(c['property_id'] for c in json.load(open('MANIFEST.json'))['checks']))"); do
  out=$(RDV_REPO=$WT ./check $p 2>&1 | grep -E "VIOLATION|CHECK-BROKEN|OK:" | head -3)
  echo "$out"
  echo "$out" | grep -q "OK:" || rc=1
done

git -C /repo worktree remove --force $WT
echo "benign variants: rc=$rc"
exit $rc
