#!/usr/bin/env python3
"""tools/mutant_triage.py <Cxx...>  -- lists the mutants that pass the repository's test suite AND survive every check of their cluster (to be read by hand), with the
source line. Inputs: selftest/mutation_matrix/<Cxx>.json, selftest/mutation/suite_results.jsonl. Source shown from the commit the mutants were generated at (MUT_BASE)."""
import json, os, subprocess, sys
V = os.path.dirname(os.path.dirname(os.path.abspath(__file__)))
BASE = os.environ.get('MUT_BASE', 'a0afc88')
suite = {}
for l in open(os.path.join(V, 'selftest/mutation/suite_results.jsonl')):
    r = json.loads(l)
    suite[(r['file'], r['line'], r['mutation'])] = r['suite']
cache = {}
def src(f):
    if f not in cache:
        cache[f] = subprocess.run(['git', '-C', '/repo', 'show', '%s:%s' % (BASE, f)], capture_output=True, text=True).stdout.split('\n')
    return cache[f]
for p in sys.argv[1:]:
    path = os.path.join(V, 'selftest/mutation_matrix', p + '.json')
    if not os.path.exists(path):
        print(p, 'no matrix'); continue
    m = json.load(open(path))
    rows = [r for r in m['mutants'] if not r.get('killed_by') and not r.get('stale')]
    live = [r for r in rows if suite.get((r['file'], r['line'], r['mutation'])) == 'pass']
    print('===== %s: %d mutants, %d survive the cluster, %d of those pass the suite' % (p, len(m['mutants']), len(rows), len(live)))
    for r in live:
        s = src(r['file'])
        i = r['line'] - 1
        print('  %s:%d [%s]' % (r['file'], r['line'], r['mutation']))
        for k in range(max(0, i - 1), min(len(s), i + 2)):
            print('      %s %s' % ('>>' if k == i else '  ', s[k][:150]))
