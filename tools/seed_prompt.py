#!/usr/bin/env python3
"""tools/seed_prompt.py <Cxx> <suffix>  -- creates a scratch worktree /tmp/wt/<Cxx><suffix> of /repo HEAD and prints the
prompt for a fresh sub-agent (property text + earlier mechanisms to stay away from; nothing about the checks)."""
import glob
import json
import os
import subprocess
import sys

prop, suffix = sys.argv[1], sys.argv[2]
p = next(json.loads(l) for l in open('/verif/properties.jsonl') if json.loads(l)['id'] == prop)
wt = '/tmp/wt/%s%s' % (prop, suffix)
if not os.path.isdir(wt):
    subprocess.run(['git', '-C', '/repo', 'worktree', 'add', '--detach', wt, 'HEAD'], check=True, capture_output=True)
    subprocess.run(['cp', '/repo/Cargo.lock', wt + '/'], check=True)
earlier = []
for m in sorted(glob.glob('/verif/seeded/%s*/meta.json' % prop)):
    j = json.load(open(m))
    earlier.append('- %s: %s' % (os.path.basename(os.path.dirname(m)), (j.get('summary') or '')[:260].replace('\n', ' ')))
sec = prop in ('C16', 'C17', 'C18', 'C19')
print('''You are helping to test a verification framework for the Rust crate jhelovuo/RustDDS (a pure-Rust DDS/RTPS implementation).
Your job: produce ONE realistic, subtle change to the library source that BREAKS the property below while the crate still
compiles and the existing test suite still passes, plus a demonstration that fails with your change and passes without it.

Your private scratch git worktree of the repository is %(wt)s (work ONLY there; never touch /repo or /verif, and do not read /verif).
Everything is offline (use --offline with cargo). %(secnote)s

PROPERTY %(id)s: %(title)s
Statement: %(statement)s
Quantifier: %(qtext)s
Why tests cannot settle it: %(why)s
Anchors (where the mechanism lives): %(anchors)s

Requirements for the change:
1. It must need something SPECIFIC to manifest: a particular interleaving, a fault/loss at a particular point, a multi-step sequence of
   operations, an unusual input, or two cooperating sites that each look fine alone. Not something ordinary use would expose at once.
2. It must look like a plausible maintainer edit (refactor, optimisation, "simplification", off-by-one, wrong operand, misplaced statement,
   changed helper, changed initial value, changed data structure use), small (ideally < 30 changed lines), in library code under src/
   (not in tests). Do NOT add new cfg flags or dead code; do not touch existing tests.
3. Earlier rounds already used the mechanisms listed below. Pick a DIFFERENT mechanism / different functions: look in helpers, callers,
   constructors, initial values, data-structure semantics, sibling code paths (with_key vs no_key, sync vs async, default vs security
   feature), conversions, and cooperating sites.
%(earlier)s
4. The crate must build (cargo build --offline%(secflag)s) and the whole existing suite must pass with your change:
   cargo nextest run --workspace --no-fail-fast --offline --test-threads 8      (expect "624 passed")
   NOTE: the end-to-end test `test::timestamp` uses real UDP multicast on domain 0; other jobs run the same test on this host at the same
   time and cross-talk can make it fail spuriously. If it fails, re-run it inside a private network namespace:
     NS='ip link set lo up; ip link add veth0 type veth peer name veth1; ip addr add 10.77.0.1/24 dev veth0; ip link set veth0 up; ip link set veth1 up; ip route add 224.0.0.0/4 dev veth0'
     unshare -rn sh -c "$NS; timeout 120 cargo nextest run --offline -E 'test(=test::timestamp)'"
   and run it 5 times there with your patch; it must pass every time (a change that makes it hang or flake is rejected).
5. Demonstration: an in-crate #[test] (added in a tests module of the relevant file, or a new test fn in an existing tests module)
   or a small example program, deterministic (no reliance on lucky timing; short sleeps with real time are acceptable only when the
   property is about time), that FAILS with your change and PASSES without it.%(demonote)s

Deliverables, in the directory %(wt)s/SEED/ (create it):
  patch.diff   -- `git diff` of the library change ONLY (no test/demo code), relative to the worktree HEAD, applies with `git apply`
  demo.diff    -- `git diff` of the demonstration ONLY (applies on top of HEAD with or without patch.diff)
  meta.json    -- {"property": "%(id)s", "summary": "<what the change does and why it breaks the property>",
                   "needs_to_manifest": "<the specific interleaving / input / sequence needed>",
                   "demo_cmd": "<single shell command, run from the worktree root, that runs ONLY the demonstration, e.g. cargo nextest run --offline%(secflag)s -E 'test(=path::to::test)'>",
                   "files_changed": [...], "functions_changed": [...]}
  transcript.txt -- the commands you ran and their summarised results: suite with patch (624 passed), demo with patch (fails), demo without (passes)
Leave the worktree with patch and demo both applied is fine. When finished, reply with a short summary: the mechanism, the files/functions,
what is needed to manifest, and the results of the three runs. If, while reading, you notice something in the ORIGINAL code that already
violates the property (a genuine defect), mention it separately at the end ("side note").
''' % dict(wt=wt, id=p['id'], title=p['title'], statement=p['statement'], qtext=p['quantifier']['text'], why=p['why_tests_cant'],
           anchors=json.dumps(p['anchors']), earlier='\n'.join('   ' + e for e in earlier),
           secnote='This property lives in the `security` cargo feature: build and run your demonstration with `--features security` '
                   '(the default-feature suite must still pass too).' if sec else '',
           secflag=' --features security' if sec else '',
           demonote=' For the demo under the security feature, `cargo nextest run --offline --features security -E ...` works.' if sec else ''))
