// mirfacts: rustc_private driver that dumps MIR facts of the crate `rustdds` as JSON.
//
// Used as RUSTC_WORKSPACE_WRAPPER under `cargo +nightly check`. argv[1] is the real rustc
// path (dropped). Output file: $MIRFACTS_OUT (one JSON document, written in one go).
// $MIRFACTS_STAMP is copied into the document so the caller can verify freshness.
#![feature(rustc_private)]
#![allow(clippy::all)]

extern crate rustc_abi;
extern crate rustc_driver;
extern crate rustc_hir;
extern crate rustc_interface;
extern crate rustc_middle;
extern crate rustc_span;

use std::{collections::HashMap, fmt::Write as _};

use rustc_driver::Compilation;
use rustc_hir::def::DefKind;
use rustc_hir::def_id::{DefId, LocalDefId, LOCAL_CRATE};
use rustc_middle::mir::{
  self, AggregateKind, BasicBlock, Body, Const, ConstValue, Operand, Place, ProjectionElem,
  Rvalue, StatementKind, TerminatorKind, UnwindAction,
};
use rustc_middle::ty::print::{with_no_trimmed_paths, PrintTraitRefExt};
use rustc_middle::ty::{self, Instance, InstanceKind, Ty, TyCtxt, TypingEnv};
use rustc_span::Span;

// ---------------------------------------------------------------- tiny JSON value

enum J {
  N,
  B(bool),
  I(i128),
  S(String),
  A(Vec<J>),
  O(Vec<(&'static str, J)>),
}

fn esc(s: &str, out: &mut String) {
  out.push('"');
  for c in s.chars() {
    match c {
      '"' => out.push_str("\\\""),
      '\\' => out.push_str("\\\\"),
      '\n' => out.push_str("\\n"),
      '\r' => out.push_str("\\r"),
      '\t' => out.push_str("\\t"),
      c if (c as u32) < 0x20 => {
        let _ = write!(out, "\\u{:04x}", c as u32);
      }
      c => out.push(c),
    }
  }
  out.push('"');
}

impl J {
  fn write(&self, out: &mut String) {
    match self {
      J::N => out.push_str("null"),
      J::B(b) => out.push_str(if *b { "true" } else { "false" }),
      J::I(i) => {
        let _ = write!(out, "{}", i);
      }
      J::S(s) => esc(s, out),
      J::A(v) => {
        out.push('[');
        for (i, x) in v.iter().enumerate() {
          if i > 0 {
            out.push(',');
          }
          x.write(out);
        }
        out.push(']');
      }
      J::O(v) => {
        out.push('{');
        let mut first = true;
        for (k, x) in v.iter() {
          if let J::N = x {
            continue; // omit nulls: smaller files
          }
          if !first {
            out.push(',');
          }
          first = false;
          esc(k, out);
          out.push(':');
          x.write(out);
        }
        out.push('}');
      }
    }
  }
}

fn s<T: Into<String>>(x: T) -> J {
  J::S(x.into())
}

// ---------------------------------------------------------------- context

struct Cx<'tcx> {
  tcx: TyCtxt<'tcx>,
  ty_cache: HashMap<Ty<'tcx>, String>,
  def_cache: HashMap<DefId, String>,
}

impl<'tcx> Cx<'tcx> {
  fn ty(&mut self, t: Ty<'tcx>) -> String {
    if let Some(x) = self.ty_cache.get(&t) {
      return x.clone();
    }
    let x = with_no_trimmed_paths!(t.to_string());
    self.ty_cache.insert(t, x.clone());
    x
  }

  fn def(&mut self, d: DefId) -> String {
    if let Some(x) = self.def_cache.get(&d) {
      return x.clone();
    }
    let x = with_no_trimmed_paths!(self.tcx.def_path_str(d));
    self.def_cache.insert(d, x.clone());
    x
  }

  fn loc(&self, sp: Span) -> (String, i128) {
    let sm = self.tcx.sess.source_map();
    let sp = if sp.from_expansion() { sp.source_callsite() } else { sp };
    let p = sm.lookup_char_pos(sp.lo());
    let f = match &p.file.name {
      rustc_span::FileName::Real(r) => match r.local_path() {
        Some(p) => p.to_string_lossy().to_string(),
        None => format!("{:?}", r),
      },
      other => format!("{:?}", other),
    };
    (f, p.line as i128)
  }

  fn macro_chain(&self, sp: Span) -> J {
    if !sp.from_expansion() {
      return J::N;
    }
    let mut names: Vec<String> = vec![];
    let mut cur = sp;
    let mut guard = 0;
    while cur.from_expansion() && guard < 16 {
      let ed = cur.ctxt().outer_expn_data();
      match ed.kind {
        rustc_span::ExpnKind::Macro(_, name) => names.push(name.to_string()),
        rustc_span::ExpnKind::Desugaring(k) => names.push(format!("desugar:{:?}", k)),
        rustc_span::ExpnKind::AstPass(k) => names.push(format!("astpass:{:?}", k)),
        rustc_span::ExpnKind::Root => {}
      }
      cur = ed.call_site;
      guard += 1;
    }
    s(names.join("/"))
  }

  // ------------------------------------------------------------ places / operands

  fn place(&mut self, body: &Body<'tcx>, pl: &Place<'tcx>) -> J {
    let tcx = self.tcx;
    let mut proj: Vec<J> = vec![];
    let mut pty = mir::PlaceTy::from_ty(body.local_decls[pl.local].ty);
    for elem in pl.projection.iter() {
      let j = match elem {
        ProjectionElem::Deref => s("*"),
        ProjectionElem::Field(idx, _fty) => {
          let (name, adt, variant): (String, J, J) = match pty.ty.kind() {
            ty::Adt(def, _) => {
              let vidx = pty.variant_index.unwrap_or(rustc_abi::FIRST_VARIANT);
              let v = def.variant(vidx);
              let fname = v.fields[idx].name.to_string();
              let vname = if def.is_enum() { s(v.name.to_string()) } else { J::N };
              (fname, s(self.def(def.did())), vname)
            }
            ty::Closure(did, _) | ty::Coroutine(did, _) | ty::CoroutineClosure(did, _) => {
              let nm = did
                .as_local()
                .and_then(|l| tcx.closure_captures(l).get(idx.as_usize()).map(|c| c.to_symbol().to_string()))
                .unwrap_or_else(|| format!("{}", idx.as_usize()));
              (nm, s(self.def(*did)), J::N)
            }
            _ => (format!("{}", idx.as_usize()), J::N, J::N),
          };
          J::O(vec![("f", J::I(idx.as_usize() as i128)), ("n", s(name)), ("adt", adt), ("v", variant)])
        }
        ProjectionElem::Index(l) => J::O(vec![("idx", J::I(l.as_usize() as i128))]),
        ProjectionElem::ConstantIndex { offset, min_length, from_end } => J::O(vec![
          ("cidx", J::I(offset as i128)),
          ("min", J::I(min_length as i128)),
          ("from_end", J::B(from_end)),
        ]),
        ProjectionElem::Subslice { from, to, from_end } => J::O(vec![
          ("sub", J::I(from as i128)),
          ("to", J::I(to as i128)),
          ("from_end", J::B(from_end)),
        ]),
        ProjectionElem::Downcast(name, vidx) => {
          let nm = match name {
            Some(n) => n.to_string(),
            None => match pty.ty.kind() {
              ty::Adt(def, _) => def.variant(vidx).name.to_string(),
              _ => format!("{}", vidx.as_usize()),
            },
          };
          J::O(vec![("dc", s(nm)), ("vi", J::I(vidx.as_usize() as i128))])
        }
        ProjectionElem::OpaqueCast(_) => s("opaque"),
        ProjectionElem::UnwrapUnsafeBinder(_) => s("unbinder"),
      };
      proj.push(j);
      pty = pty.projection_ty(tcx, elem);
    }
    J::O(vec![
      ("l", J::I(pl.local.as_usize() as i128)),
      ("p", if proj.is_empty() { J::N } else { J::A(proj) }),
    ])
  }

  fn konst(&mut self, body_def: DefId, c: &Const<'tcx>) -> J {
    let tcx = self.tcx;
    let ty = c.ty();
    let tys = self.ty(ty);
    // function items / closures as zero-sized constants
    match ty.kind() {
      ty::FnDef(did, args) => {
        let a: Vec<J> = args.iter().map(|g| s(with_no_trimmed_paths!(g.to_string()))).collect();
        return J::O(vec![("c", s("fn")), ("def", s(self.def(*did))), ("args", J::A(a))]);
      }
      _ => {}
    }
    match c {
      Const::Unevaluated(uv, _) => {
        if let Some(p) = uv.promoted {
          return J::O(vec![
            ("c", s("promoted")),
            ("idx", J::I(p.as_usize() as i128)),
            ("ty", s(tys)),
          ]);
        }
        let a: Vec<J> = uv.args.iter().map(|g| s(with_no_trimmed_paths!(g.to_string()))).collect();
        J::O(vec![("c", s("item")), ("def", s(self.def(uv.def))), ("args", J::A(a)), ("ty", s(tys))])
      }
      Const::Val(cv, _) => match cv {
        ConstValue::Scalar(sc) => match sc.try_to_scalar_int() {
          Ok(si) => {
            let size = si.size();
            let bits = si.to_bits(size);
            let v: i128 = if ty.is_signed() { si.to_int(size) } else { bits as i128 };
            J::O(vec![("c", s("int")), ("v", J::I(v)), ("ty", s(tys))])
          }
          Err(_) => {
            // a pointer to constant memory: for `&[u8; N]` (byte-string literals, N <= 64) keep the bytes so that rules can tell b"RTPS" from b"RTPX"
            let mut bytes = J::N;
            if let rustc_middle::mir::interpret::Scalar::Ptr(ptr, _) = sc {
              if let ty::Ref(_, inner, _) = ty.kind() {
                if let ty::Array(elem, _) = inner.kind() {
                  if *elem == tcx.types.u8 {
                    let env = TypingEnv::post_analysis(tcx, body_def);
                    if let Ok(layout) = tcx.layout_of(env.as_query_input(*inner)) {
                      let n = layout.size.bytes() as usize;
                      let (prov, off) = ptr.into_raw_parts();
                      if n <= 64 {
                        if let rustc_middle::mir::interpret::GlobalAlloc::Memory(a) = tcx.global_alloc(prov.alloc_id()) {
                          let a = a.inner();
                          let off = off.bytes() as usize;
                          if off + n <= a.len() {
                            let b = a.inspect_with_uninit_and_ptr_outside_interpreter(off..off + n);
                            bytes = J::A(b.iter().map(|x| J::I(*x as i128)).collect());
                          }
                        }
                      }
                    }
                  }
                }
              }
            }
            J::O(vec![("c", s("ptr")), ("ty", s(tys)), ("bytes", bytes)])
          }
        },
        ConstValue::ZeroSized => J::O(vec![("c", s("zst")), ("ty", s(tys))]),
        ConstValue::Slice { .. } => {
          // string literal?
          let txt = if let ty::Ref(_, inner, _) = ty.kind() {
            if inner.is_str() {
              cv.try_get_slice_bytes_for_diagnostics(tcx)
                .map(|b| String::from_utf8_lossy(b).to_string())
            } else {
              None
            }
          } else {
            None
          };
          match txt {
            Some(t) => J::O(vec![("c", s("str")), ("v", s(t)), ("ty", s(tys))]),
            None => J::O(vec![("c", s("slice")), ("ty", s(tys))]),
          }
        }
        ConstValue::Indirect { .. } => J::O(vec![("c", s("mem")), ("ty", s(tys))]),
      },
      Const::Ty(_, tc) => {
        let _ = body_def;
        J::O(vec![("c", s("tyconst")), ("v", s(format!("{:?}", tc))), ("ty", s(tys))])
      }
    }
  }

  fn operand(&mut self, body_def: DefId, body: &Body<'tcx>, op: &Operand<'tcx>) -> J {
    match op {
      Operand::Copy(p) => J::O(vec![("o", s("copy")), ("pl", self.place(body, p))]),
      Operand::Move(p) => J::O(vec![("o", s("move")), ("pl", self.place(body, p))]),
      Operand::Constant(c) => J::O(vec![("o", s("const")), ("k", self.konst(body_def, &c.const_))]),
      #[allow(unreachable_patterns)]
      _ => J::O(vec![("o", s("other")), ("dbg", s(format!("{:?}", op)))]),
    }
  }

  fn rvalue(&mut self, body_def: DefId, body: &Body<'tcx>, rv: &Rvalue<'tcx>) -> J {
    match rv {
      Rvalue::Use(op, ..) => J::O(vec![("r", s("use")), ("x", self.operand(body_def, body, op))]),
      Rvalue::Repeat(op, n) => J::O(vec![
        ("r", s("repeat")),
        ("x", self.operand(body_def, body, op)),
        ("n", s(format!("{:?}", n))),
      ]),
      Rvalue::Ref(_, bk, p) => J::O(vec![
        ("r", s("ref")),
        ("mut", J::B(matches!(bk, mir::BorrowKind::Mut { .. }))),
        ("pl", self.place(body, p)),
      ]),
      Rvalue::ThreadLocalRef(d) => J::O(vec![("r", s("tls")), ("def", s(self.def(*d)))]),
      Rvalue::RawPtr(_, p) => J::O(vec![("r", s("rawptr")), ("pl", self.place(body, p))]),
      Rvalue::Cast(kind, op, ty) => J::O(vec![
        ("r", s("cast")),
        ("kind", s(format!("{:?}", kind))),
        ("x", self.operand(body_def, body, op)),
        ("ty", s(self.ty(*ty))),
      ]),
      Rvalue::BinaryOp(op, ab) => J::O(vec![
        ("r", s("bin")),
        ("op", s(format!("{:?}", op))),
        ("a", self.operand(body_def, body, &ab.0)),
        ("b", self.operand(body_def, body, &ab.1)),
      ]),
      Rvalue::UnaryOp(op, a) => J::O(vec![
        ("r", s("un")),
        ("op", s(format!("{:?}", op))),
        ("a", self.operand(body_def, body, a)),
      ]),
      Rvalue::Discriminant(p) => {
        let pty = p.ty(&body.local_decls, self.tcx).ty;
        J::O(vec![("r", s("discr")), ("pl", self.place(body, p)), ("ty", s(self.ty(pty)))])
      }
      Rvalue::Aggregate(kind, ops) => {
        let opsj: Vec<J> = ops.iter().map(|o| self.operand(body_def, body, o)).collect();
        let mut v: Vec<(&'static str, J)> = vec![("r", s("agg"))];
        match &**kind {
          AggregateKind::Array(t) => {
            v.push(("kind", s("array")));
            v.push(("ty", s(self.ty(*t))));
          }
          AggregateKind::Tuple => v.push(("kind", s("tuple"))),
          AggregateKind::Adt(did, vidx, _args, _, _) => {
            let adt = self.tcx.adt_def(*did);
            let var = adt.variant(*vidx);
            v.push(("kind", s("adt")));
            v.push(("adt", s(self.def(*did))));
            if adt.is_enum() {
              v.push(("variant", s(var.name.to_string())));
            }
            v.push(("fields", J::A(var.fields.iter().map(|f| s(f.name.to_string())).collect())));
          }
          AggregateKind::Closure(did, _) => {
            v.push(("kind", s("closure")));
            v.push(("def", s(self.def(*did))));
            if let Some(l) = did.as_local() {
              let caps: Vec<J> =
                self.tcx.closure_captures(l).iter().map(|c| s(c.to_symbol().to_string())).collect();
              v.push(("fields", J::A(caps)));
            }
          }
          AggregateKind::Coroutine(did, _) => {
            v.push(("kind", s("coroutine")));
            v.push(("def", s(self.def(*did))));
          }
          AggregateKind::CoroutineClosure(did, _) => {
            v.push(("kind", s("coroutine_closure")));
            v.push(("def", s(self.def(*did))));
          }
          AggregateKind::RawPtr(..) => v.push(("kind", s("rawptr"))),
        }
        v.push(("ops", J::A(opsj)));
        J::O(v)
      }
      Rvalue::CopyForDeref(p) => {
        J::O(vec![("r", s("use")), ("x", J::O(vec![("o", s("copy")), ("pl", self.place(body, p))]))])
      }
      other => J::O(vec![("r", s("other")), ("dbg", s(format!("{:?}", other)))]),
    }
  }

  fn callee(&mut self, caller: DefId, body: &Body<'tcx>, func: &Operand<'tcx>) -> J {
    let tcx = self.tcx;
    let fty = func.ty(&body.local_decls, tcx);
    match fty.kind() {
      ty::FnDef(did, args) => {
        let mut v: Vec<(&'static str, J)> = vec![("def", s(self.def(*did)))];
        let a: Vec<J> = args.iter().map(|g| s(with_no_trimmed_paths!(g.to_string()))).collect();
        v.push(("args", J::A(a)));
        if let Some(tr) = tcx.trait_of_assoc(*did) {
          v.push(("trait", s(self.def(tr))));
          if let Some(st) = args.types().next() {
            v.push(("self_ty", s(self.ty(st))));
          }
        }
        // resolve
        let env = TypingEnv::post_analysis(tcx, caller);
        let resolved = std::panic::catch_unwind(std::panic::AssertUnwindSafe(|| {
          Instance::try_resolve(tcx, env, *did, args)
        }));
        match resolved {
          Ok(Ok(Some(inst))) => {
            let (kind, rdid): (&str, Option<DefId>) = match inst.def {
              InstanceKind::Item(d) => ("item", Some(d)),
              InstanceKind::Intrinsic(d) => ("intrinsic", Some(d)),
              InstanceKind::Virtual(d, _) => ("virtual", Some(d)),
              InstanceKind::ClosureOnceShim { call_once, .. } => ("closure_once_shim", Some(call_once)),
              InstanceKind::FnPtrShim(d, _) => ("fnptr_shim", Some(d)),
              InstanceKind::DropGlue(d, _) => ("drop_glue", Some(d)),
              InstanceKind::CloneShim(d, _) => ("clone_shim", Some(d)),
              InstanceKind::ReifyShim(d, _) => ("reify_shim", Some(d)),
              InstanceKind::VTableShim(d) => ("vtable_shim", Some(d)),
              _ => ("other", None),
            };
            v.push(("rk", s(kind)));
            if let Some(d) = rdid {
              v.push(("res", s(self.def(d))));
              v.push(("res_local", J::B(d.is_local())));
              let ra: Vec<J> =
                inst.args.iter().map(|g| s(with_no_trimmed_paths!(g.to_string()))).collect();
              v.push(("res_args", J::A(ra)));
            }
            // closure call through Fn* traits: the closure def is the self type
            if let Some(st) = inst.args.types().next() {
              if let ty::Closure(cd, _) = st.kind() {
                v.push(("closure", s(self.def(*cd))));
              }
            }
          }
          Ok(Ok(None)) => v.push(("rk", s("unresolved"))),
          _ => v.push(("rk", s("error"))),
        }
        J::O(v)
      }
      ty::FnPtr(..) => J::O(vec![("indirect", s("fnptr")), ("x", self.operand(caller, body, func))]),
      _ => J::O(vec![
        ("indirect", s("other")),
        ("ty", s(self.ty(fty))),
        ("x", self.operand(caller, body, func)),
      ]),
    }
  }

  fn bb(b: BasicBlock) -> J {
    J::I(b.as_usize() as i128)
  }

  fn unwind(u: &UnwindAction) -> J {
    match u {
      UnwindAction::Cleanup(b) => Self::bb(*b),
      _ => J::N,
    }
  }

  fn body(&mut self, did: DefId, body: &Body<'tcx>) -> J {
    let tcx = self.tcx;
    let mut locals: Vec<J> = vec![];
    for (_l, d) in body.local_decls.iter_enumerated() {
      locals.push(s(self.ty(d.ty)));
    }
    let mut dbg: Vec<J> = vec![];
    for v in body.var_debug_info.iter() {
      if let mir::VarDebugInfoContents::Place(p) = &v.value {
        dbg.push(J::O(vec![
          ("name", s(v.name.to_string())),
          ("pl", self.place(body, p)),
          ("arg", v.argument_index.map(|i| J::I(i as i128)).unwrap_or(J::N)),
        ]));
      }
    }
    let mut blocks: Vec<J> = vec![];
    for (_bb, data) in body.basic_blocks.iter_enumerated() {
      let mut stmts: Vec<J> = vec![];
      for st in data.statements.iter() {
        let line = self.loc(st.source_info.span).1;
        let mac = self.macro_chain(st.source_info.span);
        match &st.kind {
          StatementKind::Assign(b) => {
            let (pl, rv) = &**b;
            stmts.push(J::O(vec![
              ("s", s("assign")),
              ("lhs", self.place(body, pl)),
              ("rv", self.rvalue(did, body, rv)),
              ("line", J::I(line)),
              ("mac", mac),
            ]));
          }
          StatementKind::SetDiscriminant { place, variant_index } => {
            let pty = place.ty(&body.local_decls, tcx).ty;
            let vn = match pty.kind() {
              ty::Adt(def, _) => def.variant(*variant_index).name.to_string(),
              _ => format!("{}", variant_index.as_usize()),
            };
            stmts.push(J::O(vec![
              ("s", s("setdiscr")),
              ("lhs", self.place(body, place)),
              ("variant", s(vn)),
              ("line", J::I(line)),
            ]));
          }
          StatementKind::Intrinsic(i) => {
            stmts.push(J::O(vec![("s", s("intrinsic")), ("dbg", s(format!("{:?}", i))), ("line", J::I(line))]));
          }
          _ => {}
        }
      }
      let term = data.terminator();
      let sp = term.source_info.span;
      let line = self.loc(sp).1;
      let mac = self.macro_chain(sp);
      let t = match &term.kind {
        TerminatorKind::Goto { target } => J::O(vec![("t", s("goto")), ("target", Self::bb(*target))]),
        TerminatorKind::SwitchInt { discr, targets } => {
          let mut arms: Vec<J> = vec![];
          for (v, b) in targets.iter() {
            arms.push(J::A(vec![J::I(v as i128), Self::bb(b)]));
          }
          J::O(vec![
            ("t", s("switch")),
            ("x", self.operand(did, body, discr)),
            ("xty", s(self.ty(discr.ty(&body.local_decls, tcx)))),
            ("arms", J::A(arms)),
            ("otherwise", Self::bb(targets.otherwise())),
          ])
        }
        TerminatorKind::UnwindResume => J::O(vec![("t", s("resume"))]),
        TerminatorKind::UnwindTerminate(_) => J::O(vec![("t", s("terminate"))]),
        TerminatorKind::Return => J::O(vec![("t", s("return"))]),
        TerminatorKind::Unreachable => J::O(vec![("t", s("unreachable"))]),
        TerminatorKind::Drop { place, target, unwind, .. } => J::O(vec![
          ("t", s("drop")),
          ("pl", self.place(body, place)),
          ("target", Self::bb(*target)),
          ("unwind", Self::unwind(unwind)),
        ]),
        TerminatorKind::Call { func, args, destination, target, unwind, fn_span, .. } => {
          let a: Vec<J> = args.iter().map(|x| self.operand(did, body, &x.node)).collect();
          J::O(vec![
            ("t", s("call")),
            ("f", self.callee(did, body, func)),
            ("args", J::A(a)),
            ("dest", self.place(body, destination)),
            ("target", target.map(Self::bb).unwrap_or(J::N)),
            ("unwind", Self::unwind(unwind)),
            ("fline", J::I(self.loc(*fn_span).1)),
          ])
        }
        TerminatorKind::TailCall { func, args, .. } => {
          let a: Vec<J> = args.iter().map(|x| self.operand(did, body, &x.node)).collect();
          J::O(vec![("t", s("tailcall")), ("f", self.callee(did, body, func)), ("args", J::A(a))])
        }
        TerminatorKind::Assert { cond, expected, msg, target, unwind } => {
          let kind = {
            let d = format!("{:?}", msg);
            d.split('(').next().unwrap_or("").trim().to_string()
          };
          J::O(vec![
            ("t", s("assert")),
            ("cond", self.operand(did, body, cond)),
            ("expected", J::B(*expected)),
            ("kind", s(kind)),
            ("target", Self::bb(*target)),
            ("unwind", Self::unwind(unwind)),
          ])
        }
        TerminatorKind::Yield { value, resume, drop, .. } => J::O(vec![
          ("t", s("yield")),
          ("x", self.operand(did, body, value)),
          ("target", Self::bb(*resume)),
          ("drop", drop.map(Self::bb).unwrap_or(J::N)),
        ]),
        TerminatorKind::CoroutineDrop => J::O(vec![("t", s("coroutine_drop"))]),
        TerminatorKind::FalseEdge { real_target, .. } => {
          J::O(vec![("t", s("goto")), ("target", Self::bb(*real_target))])
        }
        TerminatorKind::FalseUnwind { real_target, .. } => {
          J::O(vec![("t", s("goto")), ("target", Self::bb(*real_target))])
        }
        TerminatorKind::InlineAsm { .. } => J::O(vec![("t", s("asm"))]),
      };
      let mut tv = match t {
        J::O(v) => v,
        _ => unreachable!(),
      };
      tv.push(("line", J::I(line)));
      tv.push(("mac", mac));
      blocks.push(J::O(vec![
        ("cleanup", if data.is_cleanup { J::B(true) } else { J::N }),
        ("st", J::A(stmts)),
        ("term", J::O(tv)),
      ]));
    }
    J::O(vec![
      ("argc", J::I(body.arg_count as i128)),
      ("locals", J::A(locals)),
      ("dbg", J::A(dbg)),
      ("blocks", J::A(blocks)),
    ])
  }
}

// ---------------------------------------------------------------- driver

struct Cb;

fn dump<'tcx>(tcx: TyCtxt<'tcx>) {
  let out_path = match std::env::var("MIRFACTS_OUT") {
    Ok(p) => p,
    Err(_) => return,
  };
  let stamp = std::env::var("MIRFACTS_STAMP").unwrap_or_default();
  let mut cx = Cx { tcx, ty_cache: HashMap::new(), def_cache: HashMap::new() };

  // ---- bodies
  let mut bodies: Vec<J> = vec![];
  let mut keys: Vec<LocalDefId> = tcx.mir_keys(()).iter().copied().collect();
  keys.sort_by_key(|k| {
    let sp = tcx.def_span(k.to_def_id());
    (cx.loc(sp), k.local_def_index.as_usize())
  });
  for ldid in keys {
    let did = ldid.to_def_id();
    let kind = tcx.def_kind(did);
    let kind_s = match kind {
      DefKind::Fn => "fn",
      DefKind::AssocFn => "assoc_fn",
      DefKind::Closure => {
        if tcx.is_coroutine(did) {
          "coroutine"
        } else {
          "closure"
        }
      }
      _ => continue,
    };
    if tcx.is_constructor(did) {
      continue;
    }
    let body: &Body<'tcx> = tcx.optimized_mir(did);
    let sp = tcx.def_span(did);
    let (file, line) = cx.loc(sp);
    let end_line = {
      let sm = tcx.sess.source_map();
      sm.lookup_char_pos(body.span.hi()).line as i128
    };
    let parent = tcx.opt_parent(did).map(|p| cx.def(p));
    // enclosing fn for closures
    let mut encl = did;
    while matches!(tcx.def_kind(encl), DefKind::Closure) {
      encl = tcx.parent(encl);
    }
    // impl info
    let mut impl_trait = J::N;
    let mut impl_self = J::N;
    if let Some(p) = tcx.opt_parent(encl) {
      if let DefKind::Impl { of_trait } = tcx.def_kind(p) {
        let st = tcx.type_of(p).instantiate_identity().skip_norm_wip();
        impl_self = s(cx.ty(st));
        if of_trait {
          let tr = tcx.impl_trait_ref(p).instantiate_identity().skip_norm_wip();
          impl_trait = s(cx.def(tr.def_id));
        }
      }
    }
    let name = tcx.opt_item_name(did).map(|n| n.to_string()).unwrap_or_default();
    let vis = if matches!(kind, DefKind::Fn | DefKind::AssocFn) {
      s(format!("{:?}", tcx.visibility(did)))
    } else {
      J::N
    };
    let in_test = file.contains("/test") || {
      // inside a `mod tests` / `mod test`
      let p = cx.def(did);
      p.contains("::tests::") || p.contains("::test::") || p.contains("::test_")
    };
    let mut promoted: Vec<J> = vec![];
    for pb in tcx.promoted_mir(did).iter() {
      promoted.push(cx.body(did, pb));
    }
    let b = cx.body(did, body);
    let mut v = vec![
      ("path", s(cx.def(did))),
      ("kind", s(kind_s)),
      ("name", s(name)),
      ("file", s(file)),
      ("line", J::I(line)),
      ("end_line", J::I(end_line)),
      ("parent", parent.map(s).unwrap_or(J::N)),
      ("encl", s(cx.def(encl))),
      ("impl_trait", impl_trait),
      ("impl_self", impl_self),
      ("vis", vis),
      ("test", J::B(in_test)),
      ("from_macro", J::B(sp.from_expansion())),
      ("mac", cx.macro_chain(sp)),
      ("promoted", if promoted.is_empty() { J::N } else { J::A(promoted) }),
    ];
    if let J::O(bv) = b {
      v.extend(bv);
    }
    bodies.push(J::O(v));
  }

  // ---- ADTs and impls
  let mut adts: Vec<J> = vec![];
  let mut impls: Vec<J> = vec![];
  let mut consts: Vec<J> = vec![];
  for ldid in tcx.hir_crate_items(()).definitions() {
    let did = ldid.to_def_id();
    match tcx.def_kind(did) {
      DefKind::Struct | DefKind::Enum | DefKind::Union => {
        let adt = tcx.adt_def(did);
        let mut vars: Vec<J> = vec![];
        for v in adt.variants().iter() {
          let fields: Vec<J> = v
            .fields
            .iter()
            .map(|f| {
              let fty = tcx.type_of(f.did).instantiate_identity().skip_norm_wip();
              J::O(vec![("name", s(f.name.to_string())), ("ty", s(cx.ty(fty)))])
            })
            .collect();
          let discr = J::N;
          vars.push(J::O(vec![("name", s(v.name.to_string())), ("fields", J::A(fields)), ("discr", discr)]));
        }
        let mut discrs: Vec<J> = vec![];
        if adt.is_enum() {
          for (_i, d) in adt.discriminants(tcx) {
            discrs.push(J::I(d.val as i128));
          }
        }
        let (file, line) = cx.loc(tcx.def_span(did));
        // memory size of non-generic ADTs (len_serialized functions use mem::size_of::<T>() as a wire size)
        let mut size = J::N;
        if tcx.generics_of(did).count() == 0 {
          let ty0 = tcx.type_of(did).instantiate_identity().skip_norm_wip();
          if let Ok(l) = tcx.layout_of(ty::TypingEnv::fully_monomorphized().as_query_input(ty0)) {
            size = J::I(l.size.bytes() as i128);
          }
        }
        adts.push(J::O(vec![
          ("path", s(cx.def(did))),
          ("size", size),
          ("kind", s(if adt.is_enum() { "enum" } else if adt.is_union() { "union" } else { "struct" })),
          ("variants", J::A(vars)),
          ("discrs", J::A(discrs)),
          ("file", s(file)),
          ("line", J::I(line)),
        ]));
      }
      DefKind::Impl { of_trait } => {
        let st = tcx.type_of(did).instantiate_identity().skip_norm_wip();
        let tr = if of_trait {
          let t = tcx.impl_trait_ref(did).instantiate_identity().skip_norm_wip();
          s(with_no_trimmed_paths!(t.print_only_trait_path().to_string()))
        } else {
          J::N
        };
        let trd = if of_trait {
          let t = tcx.impl_trait_ref(did).instantiate_identity().skip_norm_wip();
          s(cx.def(t.def_id))
        } else {
          J::N
        };
        let derived = tcx.is_automatically_derived(did);
        let items: Vec<J> = tcx
          .associated_items(did)
          .in_definition_order()
          .map(|it| J::O(vec![("name", s(it.name().to_string())), ("def", s(cx.def(it.def_id)))]))
          .collect();
        let (file, line) = cx.loc(tcx.def_span(did));
        impls.push(J::O(vec![
          ("self_ty", s(cx.ty(st))),
          ("trait", tr),
          ("trait_def", trd),
          ("derived", J::B(derived)),
          ("items", J::A(items)),
          ("file", s(file)),
          ("line", J::I(line)),
        ]));
      }
      DefKind::Const { .. } | DefKind::AssocConst { .. } => {
        // value of simple integer constants (used by window/size rules)
        let ty = tcx.type_of(did).instantiate_identity().skip_norm_wip();
        let mut val = J::N;
        let mut bytes = J::N;
        if tcx.generics_of(did).is_empty() && !tcx.generics_of(did).has_self {
          if let Ok(cv) = tcx.const_eval_poly(did) {
            match cv {
              ConstValue::Scalar(sc) => {
                if let Ok(si) = sc.try_to_scalar_int() {
                  let size = si.size();
                  let v: i128 = if ty.is_signed() { si.to_int(size) } else { si.to_bits(size) as i128 };
                  val = J::I(v);
                  let n = size.bytes() as usize;
                  let b = si.to_bits(size).to_le_bytes();
                  bytes = J::A(b[..n].iter().map(|x| J::I(*x as i128)).collect());
                }
              }
              ConstValue::Indirect { alloc_id, offset } => {
                let env = TypingEnv::post_analysis(tcx, did);
                if let Ok(layout) = tcx.layout_of(env.as_query_input(ty)) {
                  let n = layout.size.bytes() as usize;
                  if n <= 64 {
                    if let rustc_middle::mir::interpret::GlobalAlloc::Memory(a) = tcx.global_alloc(alloc_id) {
                      let a = a.inner();
                      let off = offset.bytes() as usize;
                      if off + n <= a.len() {
                        let b = a.inspect_with_uninit_and_ptr_outside_interpreter(off..off + n);
                        bytes = J::A(b.iter().map(|x| J::I(*x as i128)).collect());
                      }
                    }
                  }
                }
              }
              _ => {}
            }
          }
        }
        let (file, line) = cx.loc(tcx.def_span(did));
        consts.push(J::O(vec![
          ("path", s(cx.def(did))),
          ("ty", s(cx.ty(ty))),
          ("val", val),
          ("bytes", bytes),
          ("file", s(file)),
          ("line", J::I(line)),
        ]));
      }
      _ => {}
    }
  }

  let features: Vec<J> = tcx
    .sess
    .config
    .iter()
    .filter(|(k, _)| k.as_str() == "feature")
    .map(|(_, v)| s(v.map(|x| x.to_string()).unwrap_or_default()))
    .collect();

  let doc = J::O(vec![
    ("stamp", s(stamp)),
    ("crate", s("rustdds")),
    ("cfg", J::A(features)),
    ("bodies", J::A(bodies)),
    ("adts", J::A(adts)),
    ("impls", J::A(impls)),
    ("consts", J::A(consts)),
  ]);
  let mut out = String::with_capacity(64 << 20);
  doc.write(&mut out);
  let tmp = format!("{}.tmp.{}", out_path, std::process::id());
  std::fs::write(&tmp, out).expect("write facts");
  std::fs::rename(&tmp, &out_path).expect("rename facts");
}

impl rustc_driver::Callbacks for Cb {
  fn after_analysis<'tcx>(
    &mut self,
    _compiler: &rustc_interface::interface::Compiler,
    tcx: TyCtxt<'tcx>,
  ) -> Compilation {
    if tcx.crate_name(LOCAL_CRATE).as_str() == "rustdds" {
      // only the library target (not tests/examples/build scripts)
      let is_lib = tcx.crate_types().iter().any(|t| {
        matches!(t, rustc_session_crate_type::Rlib | rustc_session_crate_type::Dylib | rustc_session_crate_type::Cdylib | rustc_session_crate_type::StaticLib)
      });
      if is_lib {
        dump(tcx);
      }
    }
    Compilation::Continue
  }
}

extern crate rustc_session;
use rustc_session::config::CrateType as rustc_session_crate_type;

fn main() {
  let mut args: Vec<String> = std::env::args().collect();
  // RUSTC_WORKSPACE_WRAPPER: argv[1] is the path of the real rustc
  if args.len() > 1 && (args[1].ends_with("rustc") || args[1].contains("/rustc")) {
    args.remove(1);
  }
  rustc_driver::run_compiler(&args, &mut Cb);
}
